//! Scenario generator: one run seed -> one explicit scenario. Swarm style: a run first
//! draws which classes / fault kinds are enabled, then values inside them.

use simexec::images::pair_ok;
use simexec::scenario::*;
use simcore::Rng;

pub const POOLS: [u32; 11] = [1, 2, 3, 4, 5, 7, 8, 13, 16, 31, 32];

#[derive(Clone, Debug)]
pub struct Knobs {
    pub prop: &'static str,
    pub thorough: bool,
    pub backends: Vec<Backend>,
}

fn f(v: f64) -> F {
    F(v)
}

fn pick_filt(rng: &mut Rng) -> Filt {
    *rng.pick(&[
        Filt::Box,
        Filt::Bilinear,
        Filt::Hamming,
        Filt::CatmullRom,
        Filt::Mitchell,
        Filt::Gaussian,
        Filt::Lanczos3,
    ])
}

/// custom filters: `level` 1 = inside the fixed-point head-room only (Lanczos-A, mild
/// sharpening), 2 = everything in the table
fn pick_custom(rng: &mut Rng, level: u8) -> Filt {
    let table = simexec::exec::CUSTOM_TABLE;
    loop {
        let (fam, g10, sup) = *rng.pick(&table);
        let mild = fam == 0 || (fam == 2 && g10 <= 10) || (fam == 1 && g10 <= 2) || fam >= 4;
        if level >= 2 || mild {
            return Filt::Custom { family: fam, gain: f(g10 as f64 / 10.0), support: f(sup) };
        }
    }
}

fn pick_alg(rng: &mut Rng, custom_level: u8) -> Alg {
    let filt = if custom_level > 0 && rng.chance(1, if custom_level >= 2 { 3 } else { 10 }) {
        pick_custom(rng, custom_level)
    } else {
        pick_filt(rng)
    };
    match rng.below(20) {
        0..=1 => Alg::Nearest,
        2..=11 => Alg::Conv(filt),
        12..=14 => Alg::Interp(filt),
        _ => Alg::Super(filt, *rng.pick(&[1u8, 2, 2, 3, 4, 8, 255])),
    }
}

/// destination shape classes; returns (w, h, class name)
fn pick_dst_shape(rng: &mut Rng, max_dim: u32, allow_wrap: bool) -> (u32, u32, &'static str) {
    let edge = [15u32, 16, 17, 31, 32, 33, 63, 64, 65];
    let c = rng.below(100);
    if c < 4 {
        (rng.range(1, 4) as u32, rng.range(1, 4) as u32, "tiny")
    } else if c < 16 {
        (rng.range(5, 40) as u32, rng.range(5, 40) as u32, "small")
    } else if c < 56 {
        let lo = 41u64.min(max_dim as u64);
        (rng.range(lo, max_dim as u64) as u32, rng.range(lo, max_dim as u64) as u32, "mid")
    } else if c < 68 {
        (*rng.pick(&edge), rng.range(30u64.min(max_dim as u64), max_dim as u64) as u32, "vec-edge-w")
    } else if c < 80 {
        let hi = if rng.chance(1, 6) { 3000 } else { 600 };
        let long = rng.range(64, hi) as u32;
        let short = rng.range(1, 4) as u32;
        if rng.chance(1, 2) {
            (short, long, "thin-tall")
        } else {
            (long, short, "thin-wide")
        }
    } else if c < 90 {
        // area close to the split thresholds
        let w = rng.range(20, 140) as u32;
        let h = rng.range(20, 140) as u32;
        (w, h, "threshold")
    } else if c < 92 && allow_wrap {
        let k = rng.range(1, 2) as u32;
        let short = rng.range(1, 2) as u32;
        if rng.chance(1, 2) {
            (short, 65536 * k, "wrap-tall")
        } else {
            (65536 * k, short, "wrap-wide")
        }
    } else {
        (rng.range(100u64.min(max_dim as u64), max_dim as u64) as u32, rng.range(2, 12) as u32, "wide-flat")
    }
}

fn pick_src_dim(rng: &mut Rng, d: u32, max_dim: u32) -> u32 {
    let d = d.max(1);
    let v = match rng.below(10) {
        0 => d,                                                   // same size: no pass in this direction
        1..=4 => (d as f64 * (1.0 + rng.f64() * 4.0)) as u32,     // downscale
        5..=7 => (d as f64 * (0.2 + rng.f64() * 0.8)) as u32,     // upscale
        8 => match rng.below(5) {
            0 => d * 2,
            1 => d * 4,
            2 => (d / 2).max(1),
            3 => d * 3,
            _ => d + rng.range(1, 3) as u32,
        },
        _ => rng.range(1, max_dim as u64) as u32,
    };
    v.clamp(1, max_dim.max(d.min(4 * max_dim)))
}

fn ulps_down(v: f64, n: u64) -> f64 {
    f64::from_bits(v.to_bits() - n)
}

/// crop classes. `edge`: weight of sub-pixel / edge-flush boxes; `invalid`: allow boxes
/// that must be rejected or are degenerate (negative, NaN, inf, too large, zero)
/// one axis of a "dyadic" crop: scale a power of two and origin a multiple of 1/4, so that
/// sample centres hit kernel zero-crossings and pixel edges *exactly*
fn dyadic_axis(rng: &mut Rng, s: u32, d: u32) -> Option<(f64, f64)> {
    let (sf, df) = (s as f64, d.max(1) as f64);
    for _ in 0..6 {
        let scale = *rng.pick(&[0.25f64, 0.5, 0.5, 1.0, 2.0, 2.0, 4.0]);
        let w = df * scale;
        if w <= sf && w > 0.0 {
            let slack = ((sf - w) * 4.0).floor() as u64;
            let l = rng.below(slack + 1) as f64 * 0.25;
            return Some((l, w));
        }
    }
    None
}

fn pick_crop(rng: &mut Rng, sw: u32, sh: u32, dw: u32, dh: u32, edge: u64, invalid: bool) -> (Crop, &'static str) {
    let (swf, shf) = (sw as f64, sh as f64);
    let c = rng.below(100);
    if c < 30 {
        return (Crop::None, "none");
    }
    if c < 38 {
        if let (Some((l, w)), Some((t, h))) = (dyadic_axis(rng, sw, dw), dyadic_axis(rng, sh, dh)) {
            return (Crop::Box([f(l), f(t), f(w), f(h)]), "dyadic");
        }
        return (Crop::None, "none");
    }
    if c < 45 {
        let l = rng.below(sw as u64) as u32;
        let t = rng.below(sh as u64) as u32;
        // often exactly the destination size (same-size copy path / one pass only)
        let w = if dw >= 1 && dw <= sw - l && rng.chance(1, 3) { dw } else { rng.range(1, (sw - l) as u64) as u32 };
        let h = if dh >= 1 && dh <= sh - t && rng.chance(1, 3) { dh } else { rng.range(1, (sh - t) as u64) as u32 };
        if rng.chance(1, 3) {
            // "almost integer": every value an ulp or two away from a whole number (the
            // box must stay inside the image: origin never below 0, far edge never beyond)
            let nudge = |rng: &mut Rng, v: f64, up_ok: bool| -> f64 {
                match rng.below(3) {
                    0 => v,
                    1 if v > 0.0 => f64::from_bits(v.to_bits() - rng.range(1, 2)),
                    _ if up_ok => f64::from_bits(v.to_bits() + rng.range(1, 2)),
                    _ => v,
                }
            };
            let lf = nudge(rng, l as f64, l > 0);
            let tf = nudge(rng, t as f64, t > 0);
            let wf = nudge(rng, w as f64, (l + w) < sw);
            let hf = nudge(rng, h as f64, (t + h) < sh);
            if lf >= 0.0 && tf >= 0.0 && lf + wf <= sw as f64 && tf + hf <= sh as f64 && wf > 0.0 && hf > 0.0 {
                return (Crop::Box([f(lf), f(tf), f(wf), f(hf)]), "almost-integer");
            }
        }
        return (Crop::Box([f(l as f64), f(t as f64), f(w as f64), f(h as f64)]), "integer");
    }
    if c < 75 {
        let l = rng.f64() * swf * 0.6;
        let t = rng.f64() * shf * 0.6;
        let w = (swf - l) * (0.1 + 0.9 * rng.f64());
        let h = (shf - t) * (0.1 + 0.9 * rng.f64());
        // sometimes integer in one direction (single pass + fractional other)
        let (l, w) = if rng.chance(1, 5) { (l.floor(), w.ceil().min(swf - l.floor()).max(1.0)) } else { (l, w) };
        return (Crop::Box([f(l), f(t), f(w), f(h)]), "fractional");
    }
    if c < 75 + edge {
        // sub-pixel and/or flush against an edge within a few ulps
        let n = if rng.chance(1, 2) { 1 } else { rng.range(1, 8) };
        let (l, w) = match rng.below(5) {
            0 => {
                let l = ulps_down(swf, n);
                (l, swf - l)
            }
            1 => {
                let w = rng.f64() * 0.9 + 1e-9;
                (swf - w, w)
            }
            2 => (0.0, rng.f64() * 0.5 + 1e-12),
            3 => {
                let l = rng.below(sw as u64) as f64 + 0.5 - 1e-9 * rng.f64();
                (l, (swf - l) * rng.f64().max(1e-6))
            }
            _ => (rng.f64() * swf * 0.5, swf * 0.5),
        };
        let (t, h) = match rng.below(5) {
            0 => {
                let t = ulps_down(shf, n);
                (t, shf - t)
            }
            1 => {
                let h = rng.f64() * 0.9 + 1e-9;
                (shf - h, h)
            }
            2 => (0.0, rng.f64() * 0.5 + 1e-12),
            3 => (0.0, shf),
            _ => (rng.f64() * shf * 0.5, shf * 0.5),
        };
        return (Crop::Box([f(l), f(t), f(w), f(h)]), "edge-flush");
    }
    if c < 93 || !invalid {
        let cx = if rng.chance(1, 4) { rng.f64() * 3.0 - 1.0 } else { rng.f64() };
        let cy = if rng.chance(1, 4) { rng.f64() * 3.0 - 1.0 } else { rng.f64() };
        return (Crop::Fit(f(cx), f(cy)), "fit");
    }
    // invalid / degenerate
    let b = match rng.below(12) {
        0 => [f(-1.0 - rng.f64() * 3.0), f(0.0), f(swf.min(4.0)), f(shf)],
        1 => [f(0.0), f(-(rng.range(1, 3) as f64)), f(swf), f(shf.min(3.0))],
        2 => [f(f64::NAN), f(0.0), f(swf), f(shf)],
        3 => [f(0.0), f(0.0), f(f64::NAN), f(shf)],
        4 => [f(f64::NEG_INFINITY), f(0.0), f(f64::INFINITY), f(shf)],
        5 => [f(0.0), f(0.0), f(swf + 1.0), f(shf)],
        6 => [f(swf), f(0.0), f(1.0), f(1.0)],
        7 => [f(0.0), f(0.0), f(0.0), f(shf)],
        8 => [f(0.0), f(0.0), f(-1.0), f(shf)],
        9 => [f(-(rng.range(1, 3) as f64)), f(0.0), f(rng.range(1, 8) as f64), f(rng.range(1, shf as u64) as f64)],
        10 => [f(0.0), f(0.0), f(5e-324), f(shf)],
        _ => [f(-0.5), f(-0.5), f(swf.min(2.0) + 0.5), f(shf.min(2.0) + 0.5)],
    };
    (Crop::Box(b), "invalid")
}

fn pick_pool(rng: &mut Rng, allow_one: bool, flap: bool) -> Vec<u32> {
    let mut v = vec![];
    let n = if flap && rng.chance(1, 6) { rng.range(2, 4) } else { 1 };
    for _ in 0..n {
        let mut p = *rng.pick(&POOLS);
        if !allow_one && p == 1 {
            p = 2;
        }
        v.push(p);
    }
    v
}

fn pick_content(rng: &mut Rng, pt: Pt) -> Content {
    if pt.comp_kind() == 3 && rng.chance(1, 14) {
        return Content::Tiny;
    }
    if pt.comp_kind() == 3 && rng.chance(1, 8) {
        return Content::Cancel;
    }
    match rng.below(13) {
        0..=6 => Content::Random,
        7 => Content::Ramp,
        8 => Content::Checker,
        9 => {
            if rng.chance(1, 2) {
                Content::Zeros
            } else {
                Content::Ones
            }
        }
        _ => {
            if pt.has_alpha() {
                *rng.pick(&[Content::AlphaEdges, Content::AlphaEdges, Content::Opaque, Content::SparseAlpha, Content::SparseAlpha])
            } else {
                Content::Random
            }
        }
    }
}

const SRC_TYPED: [Kind; 7] = [Kind::Slice, Kind::Buffer, Kind::ImgAsSrc, Kind::Owned, Kind::CropRef, Kind::CropNew, Kind::CropMutAsSrc];
const DST_TYPED: [Kind; 5] = [Kind::Slice, Kind::Buffer, Kind::Owned, Kind::CropRef, Kind::CropNew];
const SRC_DYN: [Kind; 6] = [Kind::DynSlice, Kind::DynImgAsSrc, Kind::DynOwned, Kind::DynCrop, Kind::DynCrop2, Kind::DynCropMutAsSrc];
const DST_DYN: [Kind; 4] = [Kind::DynSlice, Kind::DynOwned, Kind::DynCrop, Kind::DynCrop2];

/// (source kind, destination kind), only pairs that are compiled in
fn pick_kinds(rng: &mut Rng, allow_sim: bool, plain_bias: u64) -> (Kind, Kind) {
    if rng.below(100) < plain_bias {
        return if rng.chance(1, 2) { (Kind::Slice, Kind::Slice) } else { (Kind::DynSlice, Kind::DynSlice) };
    }
    loop {
        let c = rng.below(100);
        let (s, d) = if allow_sim && c < 22 {
            *rng.pick(&[
                (Kind::Sim, Kind::Sim),
                (Kind::Slice, Kind::Sim),
                (Kind::Sim, Kind::Slice),
                (Kind::SimNoSplit, Kind::Slice),
                (Kind::Slice, Kind::SimNoSplit),
                (Kind::CropSim, Kind::CropSim),
                (Kind::YSlice, Kind::YSlice),
                (Kind::YSlice, Kind::YSlice),
                (Kind::YCrop, Kind::YCrop),
                (Kind::YCrop, Kind::YCrop),
            ])
        } else if c < 60 {
            if rng.chance(1, 8) {
                (Kind::Crop2, Kind::Crop2)
            } else {
                (*rng.pick(&SRC_TYPED), *rng.pick(&DST_TYPED))
            }
        } else {
            (*rng.pick(&SRC_DYN), *rng.pick(&DST_DYN))
        };
        if pair_ok(s, d) {
            return (s, d);
        }
    }
}

fn pick_single_kind(rng: &mut Rng, allow_sim: bool, dynamic: bool) -> Kind {
    if dynamic {
        *rng.pick(&DST_DYN)
    } else if allow_sim && rng.chance(1, 5) {
        *rng.pick(&[Kind::Sim, Kind::SimNoSplit, Kind::CropSim, Kind::YSlice, Kind::YCrop])
    } else if rng.chance(1, 8) {
        Kind::Crop2
    } else {
        *rng.pick(&DST_TYPED)
    }
}

/// byte-slice containers of C03 / C13 runs also start at offsets 4, 8, 12 (aligned for the pixel
/// type, not for a 16-byte vector); the other properties keep the 1..3-byte offsets, so that
/// their runs are the ones the committed evidence was produced from
static WIDE_MISALIGN: std::sync::atomic::AtomicBool = std::sync::atomic::AtomicBool::new(false);

fn mk_img(rng: &mut Rng, w: u32, h: u32, kind: Kind, pt: Pt, is_dst: bool, yield_rows: bool) -> Img {
    let mut pad = [0u32; 4];
    let mut pad2 = [0u32; 4];
    if kind.is_cropped() {
        for p in pad.iter_mut() {
            *p = if rng.chance(1, 3) { 0 } else { rng.range(1, 3) as u32 };
        }
        if matches!(kind, Kind::Crop2 | Kind::DynCrop2) {
            for p in pad2.iter_mut() {
                *p = if rng.chance(1, 2) { 0 } else { rng.range(1, 2) as u32 };
            }
        }
    }
    let tail = if kind.allows_tail() && rng.chance(1, if is_dst { 3 } else { 5 }) {
        match rng.below(3) {
            0 => 1,
            1 => rng.range(1, (w as u64 * 2).max(2)) as u32,
            _ => w * rng.range(1, 3) as u32 + rng.range(0, 2) as u32,
        }
    } else {
        0
    };
    Img {
        w,
        h,
        kind,
        pad,
        pad2,
        tail,
        place: if rng.chance(1, 5) { 2 } else { 1 },
        content: pick_content(rng, pt),
        content_seed: rng.next_u64() >> 16,
        stride_extra: if kind.is_sim() && rng.chance(2, 3) { rng.range(1, 5) as u32 } else { 0 },
        yield_rows: kind.is_harness() && yield_rows,
        panic_at: 0,
        misalign: if !matches!(kind, Kind::Buffer | Kind::DynSlice | Kind::DynImgAsSrc) {
            0
        } else if WIDE_MISALIGN.load(std::sync::atomic::Ordering::Relaxed) {
            // C03, C13: 1..3 are refused by the constructors of the 2- and 4-byte component
            // types; 4, 8, 12 (2, 6 for u16) are accepted but not 16-byte aligned
            if rng.chance(1, 12) {
                *rng.pick(&[1u8, 2, 3, 4, 8, 12, 4, 8, 12, 6])
            } else {
                0
            }
        } else if rng.chance(1, 20) {
            rng.range(1, 3) as u8
        } else {
            0
        },
        view_override: None,
    }
}

pub struct ResizeCfg {
    pub max_dim: u32,
    pub allow_wrap: bool,
    pub allow_sim: bool,
    pub allow_invalid: bool,
    pub edge_weight: u64,
    pub custom_level: u8,
    pub plain_bias: u64,
    pub allow_zero: bool,
    pub allow_type_mismatch: bool,
}

pub fn gen_resize(rng: &mut Rng, cfg: &ResizeCfg, classes: &mut Vec<String>, pt_hint: Option<Pt>) -> ResizeOp {
    let pt = pt_hint.unwrap_or_else(|| *rng.pick(&ALL_PT));
    let (mut dw, mut dh, shape) = pick_dst_shape(rng, cfg.max_dim, cfg.allow_wrap && pt == Pt::U8);
    classes.push(format!("shape:{}", shape));
    let wrap = shape.starts_with("wrap");
    let mut sw = pick_src_dim(rng, dw, cfg.max_dim);
    let mut sh = pick_src_dim(rng, dh, cfg.max_dim);
    if wrap {
        // keep the big dimension's source modest
        if dh >= 65536 {
            sh = rng.range(2, 300) as u32;
            sw = rng.range(1, 4) as u32;
        } else {
            sw = rng.range(2, 300) as u32;
            sh = rng.range(1, 4) as u32;
        }
    }
    if shape.starts_with("thin") {
        if dw <= 4 {
            sw = sw.min(16);
        } else {
            sh = sh.min(16);
        }
    }
    if cfg.allow_zero && rng.chance(1, 40) {
        match rng.below(4) {
            0 => dw = 0,
            1 => dh = 0,
            2 => sw = 0,
            _ => sh = 0,
        }
        classes.push("zero-dim".into());
    }
    let mut strong = false;
    // "strong reduction": hundreds of source samples per destination sample along one axis
    // (tiny normalised weights: the fixed-point precision reaches its maximum)
    if !wrap && cfg.allow_invalid && rng.chance(1, 25) {
        let long = rng.range(300, 2500) as u32;
        let short = rng.range(1, 6) as u32;
        let tiny = rng.range(1, 3) as u32;
        if rng.chance(1, 2) {
            sh = long;
            dh = tiny;
            sw = short;
            dw = rng.range(1, 8) as u32;
        } else {
            sw = long;
            dw = tiny;
            sh = short;
            dh = rng.range(1, 8) as u32;
        }
        classes.push("geometry:strong-reduction".into());
        strong = true;
    }
    // "one-axis" geometry: one direction is an identity (integer origin, crop size ==
    // destination size) inside a larger source, so that only ONE pass runs, straight from
    // the caller's source to the caller's destination, with source rows/columns to spare
    let mut one_axis: Option<bool> = None;
    if !wrap && dw > 0 && dh > 0 && sw > 0 && sh > 0 && rng.chance(1, 7) {
        let vertical_identity = rng.chance(2, 3);
        if vertical_identity {
            sh = dh + rng.range(0, 12) as u32;
        } else {
            sw = dw + rng.range(0, 12) as u32;
        }
        one_axis = Some(vertical_identity);
        classes.push("geometry:one-axis".into());
    }
    let (sk, dk) = if wrap {
        (Kind::Slice, Kind::Slice)
    } else if dw == 0 || dh == 0 || sw == 0 || sh == 0 {
        // a cropped view cannot be created inside an empty parent
        if rng.chance(1, 2) {
            (Kind::Slice, Kind::Slice)
        } else {
            (Kind::DynSlice, Kind::DynSlice)
        }
    } else {
        pick_kinds(rng, cfg.allow_sim, cfg.plain_bias)
    };
    let yield_rows = rng.chance(2, 3);
    let mut src = mk_img(rng, sw, sh, sk, pt, false, yield_rows);
    if sw > 0 && sh > 0 && dw > 0 && dh > 0 && (rng.chance(1, 10) || (strong && rng.chance(1, 2))) {
        // blocks of the size of one destination pixel's footprint
        src.content = Content::Blocks;
        src.content_seed = ((sw / dw).max(1).min(0xffff) as u64) | (((sh / dh).max(1).min(0xffff) as u64) << 16);
    }
    let dst = mk_img(rng, dw, dh, dk, pt, true, yield_rows);
    let (crop, cclass) = if sw == 0 || sh == 0 {
        (Crop::None, "none")
    } else if let Some(vertical_identity) = one_axis {
        let (swf, shf) = (sw as f64, sh as f64);
        if vertical_identity {
            let t = rng.range(0, (sh - dh) as u64) as f64;
            let l = if rng.chance(1, 2) { 0.0 } else { rng.f64() * swf * 0.4 };
            let w = (swf - l) * (0.3 + 0.7 * rng.f64());
            (Crop::Box([f(l), f(t), f(w), f(dh as f64)]), "one-axis")
        } else {
            let l = rng.range(0, (sw - dw) as u64) as f64;
            let t = if rng.chance(1, 2) { 0.0 } else { rng.f64() * shf * 0.4 };
            let h = (shf - t) * (0.3 + 0.7 * rng.f64());
            (Crop::Box([f(l), f(t), f(dw as f64), f(h)]), "one-axis")
        }
    } else {
        pick_crop(rng, sw, sh, dw, dh, cfg.edge_weight, cfg.allow_invalid)
    };
    classes.push(format!("crop:{}", cclass));
    let mut dst = dst;
    if cclass == "edge-flush" && rng.chance(1, 3) {
        // sample centres that round onto the image edge need very few output samples
        if rng.chance(1, 2) {
            dst.w = 1;
        } else {
            dst.h = 1;
        }
    }
    let alg = if wrap {
        *rng.pick(&[Alg::Conv(Filt::Bilinear), Alg::Conv(Filt::Box), Alg::Nearest, Alg::Interp(Filt::Bilinear)])
    } else if strong && cfg.custom_level >= 2 && rng.chance(1, 2) {
        // the largest accumulator excursions: a kernel with strong negative lobes
        let f = pick_custom(rng, 2);
        if rng.chance(3, 4) {
            Alg::Conv(f)
        } else {
            Alg::Super(f, 1)
        }
    } else {
        pick_alg(rng, cfg.custom_level)
    };
    // SuperSampling takes its two-step path only if the source is more than 1.2 x
    // multiplicity bigger than the destination in both directions: make that common
    let mut src = src;
    let mut crop = crop;
    if let Alg::Super(_, m) = alg {
        if !wrap && one_axis.is_none() && !strong && m <= 8 && dst.w > 0 && dst.h > 0 && src.w > 0 && src.h > 0 && rng.chance(1, 2) {
            let k = 1.25 + rng.f64() * 1.5;
            let grow = |d: u32| ((d as f64 * m as f64 * k).ceil() as u32).clamp(1, 1600);
            let (nw, nh) = (grow(dst.w), grow(dst.h));
            if (nw as u64) * (nh as u64) <= 200_000 {
                src.w = nw;
                src.h = nh;
                if src.content == Content::Blocks {
                    src.content = Content::Random;
                }
                crop = if rng.chance(1, 4) { Crop::Fit(f(rng.f64()), f(rng.f64())) } else { Crop::None };
                classes.push("geometry:two-step-supersampling".into());
            }
        }
    }
    let dst_pt = if cfg.allow_type_mismatch && dk.is_dyn() && rng.chance(1, 30) {
        classes.push("type-mismatch".into());
        Some(*rng.pick(&ALL_PT))
    } else {
        None
    };
    ResizeOp { pt, src, dst, alg, crop, use_alpha: rng.chance(2, 3), dst_pt, shared_src: false }
}

pub fn gen_alpha(rng: &mut Rng, max_dim: u32, allow_sim: bool, classes: &mut Vec<String>, alpha_only: bool) -> AlphaOp {
    let pt = if alpha_only || rng.chance(19, 20) { *rng.pick(&ALPHA_PT) } else { *rng.pick(&ALL_PT) };
    let (mut w, mut h, shape) = pick_dst_shape(rng, max_dim, false);
    classes.push(format!("alpha-shape:{}", shape));
    if !alpha_only && rng.chance(1, 40) {
        if rng.chance(1, 2) {
            w = 0;
        } else {
            h = 0;
        }
        classes.push("alpha-zero-size".into());
    }
    let inplace = rng.chance(1, 2);
    let yield_rows = rng.chance(2, 3);
    if inplace {
        let dynamic = rng.chance(1, 3);
        let k = pick_single_kind(rng, allow_sim, dynamic);
        let mut dst = mk_img(rng, w, h, k, pt, true, yield_rows);
        if dst.content == Content::Random && rng.chance(1, 2) {
            dst.content = Content::AlphaEdges;
        }
        AlphaOp { pt, src: None, dst, divide: rng.chance(1, 2) }
    } else {
        let (sk, dk) = pick_kinds(rng, allow_sim, 20);
        let mut src = mk_img(rng, w, h, sk, pt, false, yield_rows);
        if src.content == Content::Random && rng.chance(1, 2) {
            src.content = Content::AlphaEdges;
        }
        let (mut w2, mut h2) = (w, h);
        if rng.chance(1, 20) {
            (w2, h2) = mismatch(rng, w, h);
            classes.push("alpha-size-mismatch".into());
        }
        let dst = mk_img(rng, w2, h2, dk, pt, true, yield_rows);
        AlphaOp { pt, src: Some(src), dst, divide: rng.chance(1, 2) }
    }
}

/// a destination size that differs from (w, h): in one dimension only (either way) or in both
fn mismatch(rng: &mut Rng, w: u32, h: u32) -> (u32, u32) {
    match rng.below(5) {
        0 => (w + 1, h),
        1 => (w, h + 1),
        2 => (w.saturating_sub(1).max(1), h),
        3 => (w, h.saturating_sub(1).max(1)),
        _ => (w + 1, h + 1),
    }
}

pub fn gen_map(rng: &mut Rng, max_dim: u32, classes: &mut Vec<String>) -> MapOp {
    // mappers work on u8 / u16 component types
    let pts = [Pt::U8, Pt::U8x2, Pt::U8x3, Pt::U8x4, Pt::U16, Pt::U16x2, Pt::U16x3, Pt::U16x4];
    let pt = *rng.pick(&pts);
    let dst_pt = if rng.chance(1, 12) {
        classes.push("map-unsupported".into());
        *rng.pick(&ALL_PT)
    } else {
        pt.with_comp_kind(if rng.chance(1, 2) { 0 } else { 1 }).unwrap()
    };
    let mut w = rng.range(1, max_dim.min(120) as u64) as u32;
    let mut h = rng.range(1, max_dim.min(120) as u64) as u32;
    if rng.chance(1, 30) {
        if rng.chance(1, 2) {
            w = 0;
        } else {
            h = 0;
        }
        classes.push("map-zero-size".into());
    } else if rng.chance(1, 10) {
        w = 1;
    } else if rng.chance(1, 10) {
        h = 1;
    }
    let inplace = rng.chance(1, 3);
    if inplace {
        let k = *rng.pick(&DST_DYN);
        let dst = mk_img(rng, w, h, k, pt, true, false);
        MapOp { pt, dst_pt: pt, srgb: rng.chance(1, 2), forward: rng.chance(1, 2), src: None, dst }
    } else {
        let (sk, dk) = loop {
            let (s, d) = (*rng.pick(&SRC_DYN), *rng.pick(&DST_DYN));
            if pair_ok(s, d) {
                break (s, d);
            }
        };
        let src = mk_img(rng, w, h, sk, pt, false, false);
        let (w2, h2) = if rng.chance(1, 30) { mismatch(rng, w, h) } else { (w, h) };
        let dst = mk_img(rng, w2, h2, dk, dst_pt, true, false);
        MapOp { pt, dst_pt, srgb: rng.chance(1, 2), forward: rng.chance(1, 2), src: Some(src), dst }
    }
}

pub fn gen_convert(rng: &mut Rng, max_dim: u32, classes: &mut Vec<String>) -> ConvertOp {
    let pt = *rng.pick(&ALL_PT);
    let dst_pt = if rng.chance(1, 12) {
        classes.push("convert-unsupported".into());
        *rng.pick(&ALL_PT)
    } else {
        loop {
            if let Some(p) = pt.with_comp_kind(rng.below(4) as u8) {
                break p;
            }
        }
    };
    let mut w = rng.range(1, max_dim.min(120) as u64) as u32;
    let mut h = rng.range(1, max_dim.min(120) as u64) as u32;
    if rng.chance(1, 30) {
        if rng.chance(1, 2) {
            w = 0;
        } else {
            h = 0;
        }
        classes.push("convert-zero-size".into());
    } else if rng.chance(1, 10) {
        w = 1;
    } else if rng.chance(1, 10) {
        h = 1;
    }
    let (sk, dk) = loop {
        let (s, d) = (*rng.pick(&SRC_DYN), *rng.pick(&DST_DYN));
        if pair_ok(s, d) {
            break (s, d);
        }
    };
    let src = mk_img(rng, w, h, sk, pt, false, false);
    let (w2, h2) = if rng.chance(1, 30) { mismatch(rng, w, h) } else { (w, h) };
    let dst = mk_img(rng, w2, h2, dk, dst_pt, true, false);
    ConvertOp { pt, dst_pt, src, dst }
}

fn base(prop: &str, seed: u64, rng: &mut Rng, thorough: bool) -> Scenario {
    let pct = thorough && rng.chance(1, 3);
    Scenario {
        format: 1,
        prop: prop.to_string(),
        run_seed: seed,
        clients: vec![],
        sched: Sched {
            mode: if pct { "pct".into() } else { "random".into() },
            seed: rng.next_u64() >> 8,
            depth: if pct { rng.range(1, 4) as u32 } else { 0 },
            choices: vec![],
            data: vec![],
            strict: false,
        },
        alloc: AllocSpec {
            seed: rng.next_u64() >> 8,
            p_flush_start: if rng.chance(1, 4) { 128 } else { 40 },
            misalign_scratch: rng.chance(3, 4),
            forced_k: 255,
        },
        fresh_resizer_each_op: false,
        job_snapshots: false,
        classes: vec![],
    }
}

/// A variation of an earlier resize of the history: the same call with ONE thing changed
/// (what an incompletely keyed cache would confuse), or the same shape slightly bigger
/// (what a grow-only buffer with a wrong grow condition would trip over).
fn vary_resize(rng: &mut Rng, prev: &ResizeOp, classes: &mut Vec<String>) -> ResizeOp {
    let mut r = prev.clone();
    r.src.panic_at = 0;
    r.dst.panic_at = 0;
    match rng.below(12) {
        0 => {
            // Convolution <-> Interpolation <-> SuperSampling, same filter
            r.alg = match r.alg {
                Alg::Conv(f) => {
                    if rng.chance(1, 2) {
                        Alg::Interp(f)
                    } else {
                        Alg::Super(f, 2)
                    }
                }
                Alg::Interp(f) => Alg::Conv(f),
                Alg::Super(f, _) => {
                    if rng.chance(1, 2) {
                        Alg::Conv(f)
                    } else {
                        Alg::Interp(f)
                    }
                }
                Alg::Nearest => Alg::Conv(Filt::Bilinear),
            };
            classes.push("vary:alg-kind".into());
        }
        1 => {
            let nf = pick_filt(rng);
            r.alg = match r.alg {
                Alg::Conv(_) => Alg::Conv(nf),
                Alg::Interp(_) => Alg::Interp(nf),
                Alg::Super(_, m) => Alg::Super(nf, m),
                Alg::Nearest => Alg::Nearest,
            };
            classes.push("vary:filter".into());
        }
        2 => {
            r.use_alpha = !r.use_alpha;
            classes.push("vary:use-alpha".into());
        }
        3 => {
            // same geometry, other pixel type of the same size class or another one
            r.pt = *rng.pick(&ALL_PT);
            r.dst_pt = None;
            classes.push("vary:pixel-type".into());
        }
        4 => {
            r.src.content_seed ^= 0x5555;
            r.src.content = Content::Random;
            classes.push("vary:content".into());
        }
        5 | 10 => {
            // the same call with another crop box / centering
            r.crop = match r.crop {
                Crop::Box(b) if rng.chance(1, 2) && b[0].0 >= 0.25 => Crop::Box([F(b[0].0 - 0.25), b[1], b[2], b[3]]),
                Crop::Box(b) if rng.chance(1, 2) && b[1].0 >= 1.0 => Crop::Box([b[0], F(b[1].0 - 1.0), b[2], b[3]]),
                Crop::Fit(x, y) => Crop::Fit(F(1.0 - x.0.clamp(0.0, 1.0)), F(1.0 - y.0.clamp(0.0, 1.0))),
                Crop::None if r.src.w > 1 && r.src.h > 1 => {
                    let (sw, sh) = (r.src.w as f64, r.src.h as f64);
                    let l = (rng.f64() * sw * 0.5).floor();
                    let t = (rng.f64() * sh * 0.5).floor();
                    Crop::Box([F(l), F(t), F(((sw - l) * (0.5 + 0.5 * rng.f64())).max(1.0)), F(((sh - t) * (0.5 + 0.5 * rng.f64())).max(1.0))])
                }
                _ => Crop::None,
            };
            classes.push("vary:crop".into());
        }
        6..=8 => {
            // slow growth: destination (and source) 10-60 % bigger, same everything else
            let k = 1.1 + rng.f64() * 0.5;
            let g = |v: u32| ((v as f64 * k).ceil() as u32).max(v + 1).min(400);
            match rng.below(3) {
                0 => r.dst.h = g(r.dst.h),
                1 => r.dst.w = g(r.dst.w),
                _ => {
                    r.src.w = g(r.src.w);
                    r.src.h = g(r.src.h);
                }
            }
            if let Crop::Box(_) = r.crop {
                r.crop = Crop::None;
            }
            classes.push("vary:grow".into());
        }
        9 => {
            let sh = (r.dst.h / 2).max(1);
            r.dst.h = sh;
            classes.push("vary:shrink".into());
        }
        _ => {
            classes.push("vary:identical".into());
        }
    }
    r
}

fn backend(rng: &mut Rng, k: &Knobs) -> Backend {
    *rng.pick(&k.backends)
}

/// F4: make one harness container of the op panic at its k-th hand-out
fn inject_panic(rng: &mut Rng, r: &mut ResizeOp) -> bool {
    let s = r.src.kind.is_harness();
    let d = r.dst.kind.is_harness();
    if !s && !d {
        return false;
    }
    // hand-outs are counted per operation and per image; k is uniform over a rough estimate
    // of that image's hand-outs (k beyond the end = the fault does not fire). The destination
    // is touched last (second pass, alpha division): a panic there lands late in the call.
    if s && (!d || rng.chance(1, 3)) {
        r.src.panic_at = rng.range(1, (r.src.h as u64 * 2).max(3));
    } else {
        r.dst.panic_at = rng.range(1, (r.dst.h as u64 * 2).max(3));
    }
    true
}

// ---------------------------------------------------------------------------------------

pub fn generate(k: &Knobs, seed: u64) -> Scenario {
    WIDE_MISALIGN.store(k.prop == "C13" || k.prop == "C03", std::sync::atomic::Ordering::Relaxed);
    let mut rng = Rng::new(seed);
    let mut scn = base(k.prop, seed, &mut rng, k.thorough);
    let mut classes: Vec<String> = vec![];
    match k.prop {
        "C08" => {
            let n_clients = if rng.chance(1, 6) { rng.range(2, 3) } else { 1 } as usize;
            let cfg = ResizeCfg {
                max_dim: if k.thorough { 320 } else { 200 },
                allow_wrap: n_clients == 1,
                allow_sim: rng.chance(1, 2),
                allow_invalid: false,
                edge_weight: 3,
                custom_level: 1,
                plain_bias: 15,
                allow_zero: false,
                allow_type_mismatch: false,
            };
            scn.job_snapshots = rng.chance(1, 5);
            for _ in 0..n_clients {
                let n_ops = rng.range(1, 3) as usize;
                let mut ops = vec![];
                for _ in 0..n_ops {
                    let kind = if rng.chance(4, 5) {
                        OpKind::Resize(gen_resize(&mut rng, &cfg, &mut classes, None))
                    } else {
                        OpKind::Alpha(gen_alpha(&mut rng, cfg.max_dim, cfg.allow_sim, &mut classes, true))
                    };
                    ops.push(Op { kind, pool: pick_pool(&mut rng, false, true), backend: backend(&mut rng, k) });
                }
                scn.clients.push(Client { ops });
            }
            // F7: in half of the multi-client runs the first resize of every client reads
            // ONE shared source image (another destination shape, crop and algorithm each)
            if n_clients > 1 && rng.chance(1, 2) {
                let first: Option<ResizeOp> = scn.clients[0].ops.iter().find_map(|o| match &o.kind {
                    OpKind::Resize(r) if r.src.w > 0 && r.src.h > 0 && !r.src.kind.is_harness() => Some(r.clone()),
                    _ => None,
                });
                if let Some(mut r0) = first {
                    // a shared image is handed out through read-only containers
                    if matches!(r0.src.kind, Kind::ImgAsSrc) {
                        r0.src.kind = Kind::Slice;
                    }
                    if matches!(r0.src.kind, Kind::DynImgAsSrc) {
                        r0.src.kind = Kind::DynSlice;
                    }
                    if matches!(r0.src.kind, Kind::CropMutAsSrc) {
                        r0.src.kind = Kind::CropRef;
                    }
                    if matches!(r0.src.kind, Kind::DynCropMutAsSrc) {
                        r0.src.kind = Kind::DynCrop;
                    }
                    let mut fired = false;
                    for (ci, cl) in scn.clients.iter_mut().enumerate() {
                        if let Some(op) = cl.ops.iter_mut().find(|o| matches!(o.kind, OpKind::Resize(_))) {
                            if let OpKind::Resize(r) = &mut op.kind {
                                if ci > 0 {
                                    let (dw, dh, _) = pick_dst_shape(&mut rng, 200, false);
                                    let mut d = r0.dst.clone();
                                    d.w = dw;
                                    d.h = dh;
                                    d.content_seed = rng.next_u64() >> 16;
                                    let (crop, _) = pick_crop(&mut rng, r0.src.w, r0.src.h, dw, dh, 3, false);
                                    *r = ResizeOp { dst: d, crop, alg: pick_alg(&mut rng, 0), use_alpha: rng.chance(2, 3), ..r0.clone() };
                                } else {
                                    r.src.kind = r0.src.kind;
                                }
                                r.shared_src = true;
                                fired = true;
                            }
                        }
                    }
                    if fired {
                        classes.push("fault:shared-source".into());
                    }
                }
            }
        }
        "C05" => {
            let cfg = ResizeCfg {
                max_dim: if k.thorough { 200 } else { 140 },
                allow_wrap: false,
                allow_sim: rng.chance(1, 3),
                allow_invalid: true,
                edge_weight: 8,
                custom_level: 0,
                plain_bias: 5,
                allow_zero: true,
                allow_type_mismatch: true,
            };
            scn.job_snapshots = rng.chance(1, 3);
            let n_ops = rng.range(1, 3) as usize;
            let mut ops = vec![];
            for _ in 0..n_ops {
                let kind = match rng.below(20) {
                    0..=12 => OpKind::Resize(gen_resize(&mut rng, &cfg, &mut classes, None)),
                    13..=16 => OpKind::Alpha(gen_alpha(&mut rng, cfg.max_dim, cfg.allow_sim, &mut classes, false)),
                    17..=18 => OpKind::Map(gen_map(&mut rng, cfg.max_dim, &mut classes)),
                    _ => OpKind::Convert(gen_convert(&mut rng, cfg.max_dim, &mut classes)),
                };
                ops.push(Op { kind, pool: pick_pool(&mut rng, true, true), backend: backend(&mut rng, k) });
            }
            scn.clients.push(Client { ops });
        }
        "C09" => {
            let cfg = ResizeCfg {
                max_dim: 128,
                allow_wrap: false,
                allow_sim: rng.chance(1, 3),
                allow_invalid: true,
                edge_weight: 4,
                custom_level: 1,
                plain_bias: 35,
                allow_zero: true,
                allow_type_mismatch: true,
            };
            let inject = rng.chance(1, 3);
            let cfg = ResizeCfg { allow_sim: cfg.allow_sim || inject, ..cfg };
            let n_ops = rng.range(2, if k.thorough { 10 } else { 7 }) as usize;
            let mut ops = vec![];
            let mut n_resizers = 1u32;
            // bias: alternate pixel sizes / alignments, big-small-big
            let mut big = rng.chance(1, 2);
            for i in 0..n_ops {
                let kind = match rng.below(20) {
                    0 if i > 0 => OpKind::Reset,
                    1 if i > 0 => {
                        n_resizers += 1;
                        OpKind::CloneResizer { switch: rng.chance(1, 2) }
                    }
                    2 if n_resizers > 1 => OpKind::SwitchResizer { to: rng.below(n_resizers as u64) as u32 },
                    _ => {
                        let mut c = ResizeCfg { ..cfg };
                        c.max_dim = if big { 128 } else { 40 };
                        big = if rng.chance(3, 4) { !big } else { big };
                        let prev: Option<ResizeOp> = ops.iter().rev().find_map(|o: &Op| match &o.kind {
                            OpKind::Resize(r) => Some(r.clone()),
                            _ => None,
                        });
                        let mut r = match prev {
                            Some(p) if rng.chance(2, 5) && p.src.w > 0 && p.src.h > 0 && p.dst.w > 0 && p.dst.h > 0 => vary_resize(&mut rng, &p, &mut classes),
                            _ => gen_resize(&mut rng, &c, &mut classes, None),
                        };
                        // alpha and supersampling use the other two buffers: bias towards them
                        if rng.chance(1, 5) {
                            r.alg = Alg::Super(pick_filt(&mut rng), *rng.pick(&[2u8, 2, 3, 4]));
                        }
                        if inject && rng.chance(1, 2) && inject_panic(&mut rng, &mut r) {
                            classes.push("fault:panic".into());
                        }
                        OpKind::Resize(r)
                    }
                };
                ops.push(Op { kind, pool: pick_pool(&mut rng, true, false), backend: backend(&mut rng, k) });
            }
            scn.clients.push(Client { ops });
        }
        "C13" => {
            scn.fresh_resizer_each_op = true;
            let cfg = ResizeCfg {
                max_dim: 160,
                allow_wrap: false,
                allow_sim: false,
                allow_invalid: false,
                edge_weight: 6,
                custom_level: 0,
                plain_bias: 0,
                allow_zero: false,
                allow_type_mismatch: false,
            };
            let allow_sim = rng.chance(1, 3);
            let n_alt = rng.range(2, 4) as usize;
            let mut ops = vec![];
            let be = backend(&mut rng, k);
            match rng.below(10) {
                0..=6 => {
                    let mut r0 = gen_resize(&mut rng, &cfg, &mut classes, None);
                    // baseline: contiguous owned/typed images, one thread
                    r0.src = Img { kind: Kind::Slice, pad: [0; 4], pad2: [0; 4], tail: 0, place: 1, stride_extra: 0, yield_rows: false, ..r0.src };
                    r0.dst = Img { kind: Kind::Slice, pad: [0; 4], pad2: [0; 4], tail: 0, place: 1, stride_extra: 0, yield_rows: false, ..r0.dst };
                    ops.push(Op { kind: OpKind::Resize(r0.clone()), pool: vec![1], backend: be });
                    for _ in 0..n_alt {
                        let (sk, dk) = pick_kinds(&mut rng, allow_sim, 0);
                        let yr = rng.chance(1, 2);
                        let mut s = mk_img(&mut rng, r0.src.w, r0.src.h, sk, r0.pt, false, yr);
                        let mut d = mk_img(&mut rng, r0.dst.w, r0.dst.h, dk, r0.pt, true, yr);
                        s.content = r0.src.content;
                        s.content_seed = r0.src.content_seed;
                        d.content = r0.dst.content;
                        d.content_seed = r0.dst.content_seed;
                        let r = ResizeOp { src: s, dst: d, ..r0.clone() };
                        ops.push(Op { kind: OpKind::Resize(r), pool: pick_pool(&mut rng, true, false), backend: be });
                    }
                }
                7 => {
                    // mapper / component conversion through the dynamic containers
                    let plain = |i: &Img| Img { kind: Kind::DynSlice, pad: [0; 4], pad2: [0; 4], tail: 0, place: 1, stride_extra: 0, yield_rows: false, ..i.clone() };
                    let dyn_pair = |rng: &mut Rng| loop {
                        let (s, d) = (*rng.pick(&SRC_DYN), *rng.pick(&DST_DYN));
                        if pair_ok(s, d) {
                            break (s, d);
                        }
                    };
                    if rng.chance(1, 2) {
                        let mut m0 = gen_map(&mut rng, cfg.max_dim, &mut classes);
                        m0.dst = plain(&m0.dst);
                        if let Some(sx) = m0.src.as_mut() {
                            *sx = Img { w: m0.dst.w, h: m0.dst.h, ..plain(sx) };
                        }
                        ops.push(Op { kind: OpKind::Map(m0.clone()), pool: vec![1], backend: be });
                        for _ in 0..n_alt {
                            let (sk, dk) = dyn_pair(&mut rng);
                            let mut d = mk_img(&mut rng, m0.dst.w, m0.dst.h, dk, m0.dst_pt, true, false);
                            d.content = m0.dst.content;
                            d.content_seed = m0.dst.content_seed;
                            let sx = m0.src.as_ref().map(|s0| {
                                let mut sx = mk_img(&mut rng, s0.w, s0.h, sk, m0.pt, false, false);
                                sx.content = s0.content;
                                sx.content_seed = s0.content_seed;
                                sx
                            });
                            ops.push(Op { kind: OpKind::Map(MapOp { src: sx, dst: d, ..m0.clone() }), pool: pick_pool(&mut rng, true, false), backend: be });
                        }
                    } else {
                        let mut c0 = gen_convert(&mut rng, cfg.max_dim, &mut classes);
                        c0.dst = Img { w: c0.src.w, h: c0.src.h, ..plain(&c0.dst) };
                        c0.src = plain(&c0.src);
                        ops.push(Op { kind: OpKind::Convert(c0.clone()), pool: vec![1], backend: be });
                        for _ in 0..n_alt {
                            let (sk, dk) = dyn_pair(&mut rng);
                            let mut sx = mk_img(&mut rng, c0.src.w, c0.src.h, sk, c0.pt, false, false);
                            sx.content = c0.src.content;
                            sx.content_seed = c0.src.content_seed;
                            let d = mk_img(&mut rng, c0.dst.w, c0.dst.h, dk, c0.dst_pt, true, false);
                            ops.push(Op { kind: OpKind::Convert(ConvertOp { src: sx, dst: d, ..c0.clone() }), pool: pick_pool(&mut rng, true, false), backend: be });
                        }
                    }
                }
                _ => {
                    let mut a0 = gen_alpha(&mut rng, cfg.max_dim, false, &mut classes, true);
                    a0.dst = Img { kind: Kind::Slice, pad: [0; 4], pad2: [0; 4], tail: 0, place: 1, stride_extra: 0, yield_rows: false, ..a0.dst };
                    if let Some(s) = a0.src.as_mut() {
                        *s = Img { kind: Kind::Slice, pad: [0; 4], pad2: [0; 4], tail: 0, place: 1, stride_extra: 0, yield_rows: false, w: a0.dst.w, h: a0.dst.h, ..s.clone() };
                    }
                    ops.push(Op { kind: OpKind::Alpha(a0.clone()), pool: vec![1], backend: be });
                    for _ in 0..n_alt {
                        let yr = rng.chance(1, 2);
                        let a = match &a0.src {
                            Some(s0) => {
                                let (sk, dk) = pick_kinds(&mut rng, allow_sim, 0);
                                let mut s = mk_img(&mut rng, s0.w, s0.h, sk, a0.pt, false, yr);
                                let mut d = mk_img(&mut rng, a0.dst.w, a0.dst.h, dk, a0.pt, true, yr);
                                s.content = s0.content;
                                s.content_seed = s0.content_seed;
                                d.content = a0.dst.content;
                                d.content_seed = a0.dst.content_seed;
                                AlphaOp { src: Some(s), dst: d, ..a0.clone() }
                            }
                            None => {
                                let dynamic = rng.chance(1, 3);
                                let dk = pick_single_kind(&mut rng, allow_sim, dynamic);
                                let mut d = mk_img(&mut rng, a0.dst.w, a0.dst.h, dk, a0.pt, true, yr);
                                d.content = a0.dst.content;
                                d.content_seed = a0.dst.content_seed;
                                AlphaOp { src: None, dst: d, ..a0.clone() }
                            }
                        };
                        ops.push(Op { kind: OpKind::Alpha(a), pool: pick_pool(&mut rng, true, false), backend: be });
                    }
                }
            }
            scn.clients.push(Client { ops });
        }
        _ => {
            // C03
            let cfg = ResizeCfg {
                max_dim: 160,
                allow_wrap: true,
                allow_sim: rng.chance(1, 4),
                allow_invalid: true,
                edge_weight: 14,
                custom_level: 2,
                plain_bias: 10,
                allow_zero: true,
                allow_type_mismatch: true,
            };
            let inject = rng.chance(1, 6);
            let n_ops = rng.range(1, 6) as usize;
            let mut ops = vec![];
            let mut n_resizers = 1u32;
            for i in 0..n_ops {
                let kind = match rng.below(40) {
                    0 if i > 0 => OpKind::Reset,
                    1 if i > 0 => {
                        n_resizers += 1;
                        OpKind::CloneResizer { switch: rng.chance(1, 2) }
                    }
                    2 if n_resizers > 1 => OpKind::SwitchResizer { to: rng.below(n_resizers as u64) as u32 },
                    3..=8 => OpKind::Alpha(gen_alpha(&mut rng, cfg.max_dim, cfg.allow_sim, &mut classes, false)),
                    9..=10 => OpKind::Map(gen_map(&mut rng, cfg.max_dim, &mut classes)),
                    11..=12 => OpKind::Convert(gen_convert(&mut rng, cfg.max_dim, &mut classes)),
                    _ => {
                        let prev: Option<ResizeOp> = ops.iter().rev().find_map(|o: &Op| match &o.kind {
                            OpKind::Resize(r) => Some(r.clone()),
                            _ => None,
                        });
                        let mut r = match prev {
                            Some(p) if rng.chance(1, 4) && p.src.w > 0 && p.src.h > 0 && p.dst.w > 0 && p.dst.h > 0 => vary_resize(&mut rng, &p, &mut classes),
                            _ => gen_resize(&mut rng, &cfg, &mut classes, None),
                        };
                        if inject && rng.chance(1, 3) && inject_panic(&mut rng, &mut r) {
                            classes.push("fault:panic".into());
                        }
                        // arguments a safe caller may hand to a cropped view's constructor
                        if matches!(r.src.kind, Kind::CropRef | Kind::CropNew | Kind::DynCrop)
                            && matches!(r.dst.kind, Kind::Slice | Kind::Buffer | Kind::Owned | Kind::DynSlice | Kind::DynOwned)
                            && r.src.w > 0
                            && r.src.h > 0
                            && rng.chance(1, 12)
                        {
                            let pw = r.src.w + r.src.pad[0] + r.src.pad[2];
                            let ph = r.src.h + r.src.pad[1] + r.src.pad[3];
                            let wrap = |rng: &mut Rng, limit: u32| -> (u32, u32) {
                                // origin inside the parent, size so large that origin + size
                                // wraps around u32 to a value <= limit
                                let o = rng.range(1, limit.max(2) as u64 - 1) as u32;
                                let target = rng.range(0, limit as u64) as u32;
                                (o, target.wrapping_sub(o))
                            };
                            let ov = match rng.below(6) {
                                0 => {
                                    let (l, w) = wrap(&mut rng, pw);
                                    [l, 0, w, r.src.h.min(ph)]
                                }
                                1 => {
                                    let (t, h) = wrap(&mut rng, ph);
                                    [0, t, r.src.w.min(pw), h]
                                }
                                2 => [pw, 0, 1, 1],
                                3 => [0, 0, pw + 1, ph],
                                4 => [0, 0, u32::MAX, u32::MAX],
                                _ => [pw - 1, ph - 1, 1, 1],
                            };
                            r.src.view_override = Some(ov);
                            r.crop = Crop::None;
                            r.alg = if rng.chance(1, 2) { Alg::Nearest } else { Alg::Conv(Filt::Bilinear) };
                            classes.push("view-constructor-arguments".into());
                        }
                        OpKind::Resize(r)
                    }
                };
                ops.push(Op { kind, pool: pick_pool(&mut rng, true, true), backend: backend(&mut rng, k) });
            }
            scn.clients.push(Client { ops });
        }
    }
    // a cropped view cannot be created inside an empty parent: operations with an empty
    // image use plain containers
    for c in scn.clients.iter_mut() {
        for op in c.ops.iter_mut() {
            let imgs: Vec<&mut Img> = match &mut op.kind {
                OpKind::Resize(r) => vec![&mut r.src, &mut r.dst],
                OpKind::Alpha(a) => a.src.iter_mut().chain(std::iter::once(&mut a.dst)).collect(),
                OpKind::Map(m) => m.src.iter_mut().chain(std::iter::once(&mut m.dst)).collect(),
                OpKind::Convert(c) => vec![&mut c.src, &mut c.dst],
                _ => vec![],
            };
            if imgs.iter().any(|i| i.w == 0 || i.h == 0) {
                let dynamic = imgs.last().map(|i| i.kind.is_dyn()).unwrap_or(false);
                for i in imgs {
                    i.kind = if dynamic { Kind::DynSlice } else { Kind::Slice };
                    // an empty image over a byte slice that starts at an odd address
                    if dynamic && rng.chance(1, 3) {
                        i.misalign = rng.range(1, 3) as u8;
                    }
                    if k.prop == "C13" && i.misalign % 4 != 0 {
                        i.misalign = 0;
                    }
                }
            } else if k.prop == "C13" {
                // every recipe of a C13 run must accept its buffer: only offsets every pixel
                // type accepts (4, 8, 12 - aligned for the components, not for a 16-byte vector)
                for i in imgs {
                    if i.misalign % 4 != 0 {
                        i.misalign = 0;
                    }
                }
            }
        }
    }
    classes.sort();
    classes.dedup();
    scn.classes = classes;
    scn
}
