//! Event log of one execution: which job ran when, which rows were handed out to whom.
//! Written by the `rayon` stand-in and by the harness containers, read by the oracles.
//! All bookkeeping memory is allocated with the zone off.

use crate::zone;
use std::cell::UnsafeCell;

pub const NO_JOB: u32 = u32::MAX;

/// Per-task context that has to survive a scheduling point (saved before, restored after).
#[derive(Clone, Copy, Debug, PartialEq)]
pub struct TaskCtx {
    pub zone: u8,
    pub job: u32, // (phase << 12 | job index) or NO_JOB
    pub client: u8,
}

#[derive(Clone, Copy, Debug)]
pub struct Handout {
    pub image: u8,
    pub row: u32,
    pub mutable: bool,
    pub job: u32,
    pub client: u8,
}

#[derive(Default, Debug, Clone)]
pub struct Log {
    /// rolling hash of the interleaving (job starts, hand-outs) in execution order
    pub sig: u64,
    pub phases: u32,
    pub jobs: u32,
    pub max_jobs_in_phase: u32,
    pub multi_job_phases: u32,
    pub handouts: u64,
    pub handout_log: Vec<Handout>,
    pub keep_handouts: bool,
    pub handouts_truncated: bool,
    /// (phase, jobs, workers) per parallel phase, first 64 only
    pub phase_shapes: Vec<(u32, u32, u32)>,
    /// order in which jobs started: (phase, job)
    pub job_order: Vec<(u32, u32)>,
    pub one_row_band: u32,
    pub workers_gt_jobs: u32,
    pub job_panics: u32,
    pub num_threads_queries: u32,
}

struct G {
    log: UnsafeCell<Option<Log>>,
    job: UnsafeCell<u32>,
    client: UnsafeCell<u8>,
    job_hook: UnsafeCell<Option<fn(bool, u32, u32)>>,
}
unsafe impl Sync for G {}
static G: G = G {
    log: UnsafeCell::new(None),
    job: UnsafeCell::new(NO_JOB),
    client: UnsafeCell::new(0),
    job_hook: UnsafeCell::new(None),
};

fn log() -> &'static mut Log {
    unsafe {
        let l = &mut *G.log.get();
        if l.is_none() {
            let _z = zone::enter(zone::OFF);
            *l = Some(Log::default());
        }
        l.as_mut().unwrap()
    }
}

pub fn reset(keep_handouts: bool) {
    let _z = zone::enter(zone::OFF);
    let l = log();
    *l = Log::default();
    l.keep_handouts = keep_handouts;
    unsafe {
        *G.job.get() = NO_JOB;
        *G.client.get() = 0;
    }
}

pub fn take() -> Log {
    let _z = zone::enter(zone::OFF);
    std::mem::take(log())
}

pub fn set_job_hook(h: Option<fn(bool, u32, u32)>) {
    unsafe { *G.job_hook.get() = h }
}

#[inline]
pub fn save_ctx() -> TaskCtx {
    unsafe { TaskCtx { zone: zone::get(), job: *G.job.get(), client: *G.client.get() } }
}
#[inline]
pub fn restore_ctx(c: TaskCtx) {
    zone::set(c.zone);
    unsafe {
        *G.job.get() = c.job;
        *G.client.get() = c.client;
    }
}
pub fn set_client(c: u8) {
    unsafe { *G.client.get() = c }
}
pub fn current_client() -> u8 {
    unsafe { *G.client.get() }
}
pub fn current_job() -> u32 {
    unsafe { *G.job.get() }
}

#[inline]
fn mix(sig: &mut u64, v: u64) {
    *sig = (*sig ^ v).wrapping_mul(0x100_0000_01B3).rotate_left(23) ^ 0x9E37_79B9_7F4A_7C15;
}

pub fn phase_begin(jobs: u32, workers: u32) -> u32 {
    let _z = zone::enter(zone::OFF);
    let l = log();
    let phase = l.phases;
    l.phases += 1;
    l.max_jobs_in_phase = l.max_jobs_in_phase.max(jobs);
    if jobs >= 2 {
        l.multi_job_phases += 1;
    }
    if workers > jobs {
        l.workers_gt_jobs += 1;
    }
    if l.phase_shapes.len() < 64 {
        l.phase_shapes.push((phase, jobs, workers));
    }
    mix(&mut l.sig, 0xF00D_0000 ^ ((jobs as u64) << 32) ^ phase as u64);
    phase
}

pub fn job_begin(phase: u32, job: u32) {
    {
        let _z = zone::enter(zone::OFF);
        let l = log();
        l.jobs += 1;
        mix(&mut l.sig, ((phase as u64) << 20) ^ job as u64);
        if l.job_order.len() < 4096 {
            l.job_order.push((phase, job));
        }
    }
    unsafe {
        *G.job.get() = (phase << 12) | (job & 0xfff);
        if let Some(h) = *G.job_hook.get() {
            let _z = zone::enter(zone::OFF);
            h(true, phase, job);
        }
    }
}

pub fn job_end(phase: u32, job: u32, panicked: bool) {
    unsafe {
        if let Some(h) = *G.job_hook.get() {
            let _z = zone::enter(zone::OFF);
            h(false, phase, job);
        }
        *G.job.get() = NO_JOB;
    }
    if panicked {
        log().job_panics += 1;
    }
}

pub fn note_one_row_band() {
    log().one_row_band += 1;
}
pub fn note_num_threads_query() {
    log().num_threads_queries += 1;
}

/// A container hands out row `row` of image `image` (mutable or not) to whoever runs now.
pub fn handout(image: u8, row: u32, mutable: bool) -> u64 {
    let _z = zone::enter(zone::OFF);
    let l = log();
    l.handouts += 1;
    let job = current_job();
    let client = current_client();
    mix(
        &mut l.sig,
        0xABCD_0000_0000 ^ ((image as u64) << 40) ^ ((mutable as u64) << 39) ^ ((job as u64) << 8) ^ row as u64,
    );
    if l.keep_handouts {
        if l.handout_log.len() < 400_000 {
            l.handout_log.push(Handout { image, row, mutable, job, client });
        } else {
            l.handouts_truncated = true;
        }
    }
    l.handouts
}
