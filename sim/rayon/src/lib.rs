//! Stand-in for the `rayon` crate, executed on shuttle tasks under the simulator's
//! scheduler. Only the API subset `fast_image_resize` uses (plus a little slack).
//!
//! Semantics (an over-approximation of rayon's contract): every item of a parallel
//! iterator is an independent job; `for_each` blocks the caller until all jobs are done;
//! any of the pool's workers may take any pending job at any time, in any order (which
//! job a free worker takes is drawn from the scheduler's data stream, so it is recorded
//! and replayed with the schedule); a panic in a job is caught in the worker and
//! re-raised in the caller once the phase is over.

use simcore::{events, zone};
use std::any::Any;
use std::panic::{catch_unwind, resume_unwind, AssertUnwindSafe};

pub mod sim {
    //! Controls of the simulated pool (task-local: every client task owns its pool
    //! description, like `ThreadPool::install` in real rayon).
    use std::cell::RefCell;

    #[derive(Clone, Debug, Default)]
    pub struct PoolCfg {
        /// values returned by consecutive `current_num_threads()` calls; the last one
        /// repeats. Empty = 1.
        pub sizes: Vec<u32>,
        pub pos: usize,
        pub last: u32,
    }

    shuttle::thread_local! {
        pub(crate) static POOL: RefCell<PoolCfg> = RefCell::new(PoolCfg::default());
    }

    /// Set the pool of the calling task.
    pub fn set_pool(sizes: &[u32]) {
        let _z = simcore::zone::enter(simcore::zone::OFF);
        POOL.with(|p| {
            let mut p = p.borrow_mut();
            p.sizes = sizes.to_vec();
            p.pos = 0;
            p.last = sizes.first().copied().unwrap_or(1).max(1);
        })
    }
}

pub fn current_num_threads() -> usize {
    events::note_num_threads_query();
    sim::POOL.with(|p| {
        let mut p = p.borrow_mut();
        let v = if p.sizes.is_empty() {
            1
        } else {
            let i = p.pos.min(p.sizes.len() - 1);
            p.pos += 1;
            p.sizes[i]
        };
        p.last = v.max(1);
        p.last as usize
    })
}

fn pool_workers() -> u32 {
    sim::POOL.with(|p| p.borrow().last.max(1))
}

fn run_jobs<T: Send, F: Fn(T) + Sync + Send>(items: Vec<T>, f: F) {
    let ctx = events::save_ctx();
    zone::set(zone::OFF);
    let n_jobs = items.len() as u32;
    let pool = pool_workers();
    let phase = events::phase_begin(n_jobs, pool);
    let mut first_panic: Option<Box<dyn Any + Send>> = None;
    if n_jobs > 0 {
        let workers = pool.min(n_jobs).max(1);
        let queue: shuttle::sync::Mutex<Vec<(u32, T)>> =
            shuttle::sync::Mutex::new(items.into_iter().enumerate().map(|(i, t)| (i as u32, t)).collect());
        let panic_slot: shuttle::sync::Mutex<Option<Box<dyn Any + Send>>> = shuttle::sync::Mutex::new(None);
        let client = ctx.client;
        let fr = &f;
        let qr = &queue;
        let pr = &panic_slot;
        shuttle::thread::scope(|s| {
            for _w in 0..workers {
                s.spawn(move || {
                    events::set_client(client);
                    loop {
                        let item = {
                            let mut q = qr.lock().unwrap();
                            // a lock is a scheduling point: whoever ran meanwhile left its
                            // own context behind
                            events::restore_ctx(events::TaskCtx { zone: zone::OFF, job: events::NO_JOB, client });
                            if q.is_empty() {
                                None
                            } else {
                                use shuttle::rand::Rng;
                                let k = (shuttle::rand::thread_rng().gen::<u64>() % q.len() as u64) as usize;
                                Some(q.remove(k))
                            }
                        };
                        // lock and unlock are scheduling points: whoever ran meanwhile left
                        // its own context behind
                        events::restore_ctx(events::TaskCtx { zone: zone::OFF, job: events::NO_JOB, client });
                        let Some((idx, it)) = item else { break };
                        events::job_begin(phase, idx);
                        zone::set(zone::LIBRARY);
                        let r = catch_unwind(AssertUnwindSafe(|| fr(it)));
                        zone::set(zone::OFF);
                        events::job_end(phase, idx, r.is_err());
                        if let Err(e) = r {
                            {
                                let mut p = pr.lock().unwrap();
                                zone::set(zone::OFF);
                                if p.is_none() {
                                    *p = Some(e);
                                }
                            }
                            events::restore_ctx(events::TaskCtx { zone: zone::OFF, job: events::NO_JOB, client });
                        }
                    }
                });
            }
        });
        first_panic = panic_slot.lock().unwrap().take();
        zone::set(zone::OFF);
    }
    events::restore_ctx(ctx);
    if let Some(e) = first_panic {
        resume_unwind(e);
    }
}

pub mod iter {
    //! The parallel-iterator subset. Every element is one job of one phase; adaptor
    //! closures (`map`, `filter`) run inside the job, like in rayon.
    use super::run_jobs;
    use std::sync::Mutex;

    pub trait ParallelIterator: Sized + Send {
        type Item: Send;

        /// One job per element; `sink(index, item)` is called inside the job.
        #[doc(hidden)]
        fn drive<S>(self, sink: S)
        where
            S: Fn(usize, Self::Item) + Sync + Send;

        fn for_each<F>(self, f: F)
        where
            F: Fn(Self::Item) + Sync + Send,
        {
            self.drive(|_, it| f(it))
        }

        fn for_each_with<T, F>(self, init: T, f: F)
        where
            T: Clone + Send + Sync,
            F: Fn(&mut T, Self::Item) + Sync + Send,
        {
            self.drive(|_, it| {
                let mut t = init.clone();
                f(&mut t, it)
            })
        }

        fn map<R: Send, F>(self, f: F) -> Map<Self, F>
        where
            F: Fn(Self::Item) -> R + Sync + Send,
        {
            Map { base: self, f }
        }

        fn filter<P>(self, p: P) -> Filter<Self, P>
        where
            P: Fn(&Self::Item) -> bool + Sync + Send,
        {
            Filter { base: self, p }
        }

        #[doc(hidden)]
        fn collect_indexed(self) -> Vec<Self::Item> {
            let slots: Mutex<Vec<(usize, Self::Item)>> = Mutex::new(Vec::new());
            self.drive(|i, it| {
                let _z = simcore::zone::enter(simcore::zone::OFF);
                slots.lock().unwrap().push((i, it));
            });
            let mut v = slots.into_inner().unwrap();
            v.sort_by_key(|(i, _)| *i);
            v.into_iter().map(|(_, it)| it).collect()
        }

        fn collect<C: FromIterator<Self::Item>>(self) -> C {
            self.collect_indexed().into_iter().collect()
        }

        fn any<P>(self, p: P) -> bool
        where
            P: Fn(Self::Item) -> bool + Sync + Send,
        {
            self.map(p).collect_indexed().into_iter().any(|b| b)
        }

        fn all<P>(self, p: P) -> bool
        where
            P: Fn(Self::Item) -> bool + Sync + Send,
        {
            self.map(p).collect_indexed().into_iter().all(|b| b)
        }

        fn count(self) -> usize {
            self.collect_indexed().len()
        }

        fn sum<S>(self) -> S
        where
            S: std::iter::Sum<Self::Item>,
        {
            self.collect_indexed().into_iter().sum()
        }

        fn reduce<OP, ID>(self, identity: ID, op: OP) -> Self::Item
        where
            OP: Fn(Self::Item, Self::Item) -> Self::Item + Sync + Send,
            ID: Fn() -> Self::Item + Sync + Send,
        {
            self.collect_indexed().into_iter().fold(identity(), op)
        }
    }

    pub trait IndexedParallelIterator: ParallelIterator {
        #[doc(hidden)]
        fn into_items(self) -> Vec<Self::Item>;

        fn zip<Z>(self, other: Z) -> Zip<Self, Z::Iter>
        where
            Z: IntoParallelIterator,
            Z::Iter: IndexedParallelIterator,
        {
            Zip { a: self, b: other.into_par_iter() }
        }
        fn enumerate(self) -> Enumerate<Self> {
            Enumerate { base: self }
        }
    }

    fn drive_items<T: Send, S: Fn(usize, T) + Sync + Send>(items: Vec<T>, sink: S) {
        let indexed: Vec<(usize, T)> = items.into_iter().enumerate().collect();
        run_jobs(indexed, move |(i, it)| sink(i, it))
    }

    pub trait IntoParallelIterator {
        type Iter: ParallelIterator<Item = Self::Item>;
        type Item: Send;
        fn into_par_iter(self) -> Self::Iter;
    }

    impl<T: ParallelIterator> IntoParallelIterator for T {
        type Iter = T;
        type Item = T::Item;
        fn into_par_iter(self) -> T {
            self
        }
    }

    pub struct VecIter<T: Send> {
        v: Vec<T>,
    }
    impl<T: Send> IntoParallelIterator for Vec<T> {
        type Iter = VecIter<T>;
        type Item = T;
        fn into_par_iter(self) -> VecIter<T> {
            VecIter { v: self }
        }
    }
    impl<T: Send> ParallelIterator for VecIter<T> {
        type Item = T;
        fn drive<S: Fn(usize, T) + Sync + Send>(self, sink: S) {
            drive_items(self.v, sink)
        }
    }
    impl<T: Send> IndexedParallelIterator for VecIter<T> {
        fn into_items(self) -> Vec<T> {
            self.v
        }
    }
    impl<'a, T: Sync + 'a> IntoParallelIterator for &'a [T] {
        type Iter = VecIter<&'a T>;
        type Item = &'a T;
        fn into_par_iter(self) -> Self::Iter {
            VecIter { v: self.iter().collect() }
        }
    }
    impl<'a, T: Send + 'a> IntoParallelIterator for &'a mut [T] {
        type Iter = VecIter<&'a mut T>;
        type Item = &'a mut T;
        fn into_par_iter(self) -> Self::Iter {
            VecIter { v: self.iter_mut().collect() }
        }
    }
    impl<'a, T: Sync + 'a> IntoParallelIterator for &'a Vec<T> {
        type Iter = VecIter<&'a T>;
        type Item = &'a T;
        fn into_par_iter(self) -> Self::Iter {
            VecIter { v: self.iter().collect() }
        }
    }
    impl<'a, T: Send + 'a> IntoParallelIterator for &'a mut Vec<T> {
        type Iter = VecIter<&'a mut T>;
        type Item = &'a mut T;
        fn into_par_iter(self) -> Self::Iter {
            VecIter { v: self.iter_mut().collect() }
        }
    }
    impl IntoParallelIterator for std::ops::Range<usize> {
        type Iter = VecIter<usize>;
        type Item = usize;
        fn into_par_iter(self) -> Self::Iter {
            VecIter { v: self.collect() }
        }
    }
    impl IntoParallelIterator for std::ops::Range<u32> {
        type Iter = VecIter<u32>;
        type Item = u32;
        fn into_par_iter(self) -> Self::Iter {
            VecIter { v: self.collect() }
        }
    }

    pub trait IntoParallelRefIterator<'a> {
        type Iter: ParallelIterator<Item = Self::Item>;
        type Item: Send + 'a;
        fn par_iter(&'a self) -> Self::Iter;
    }
    impl<'a, I: 'a + ?Sized> IntoParallelRefIterator<'a> for I
    where
        &'a I: IntoParallelIterator,
    {
        type Iter = <&'a I as IntoParallelIterator>::Iter;
        type Item = <&'a I as IntoParallelIterator>::Item;
        fn par_iter(&'a self) -> Self::Iter {
            self.into_par_iter()
        }
    }
    pub trait IntoParallelRefMutIterator<'a> {
        type Iter: ParallelIterator<Item = Self::Item>;
        type Item: Send + 'a;
        fn par_iter_mut(&'a mut self) -> Self::Iter;
    }
    impl<'a, I: 'a + ?Sized> IntoParallelRefMutIterator<'a> for I
    where
        &'a mut I: IntoParallelIterator,
    {
        type Iter = <&'a mut I as IntoParallelIterator>::Iter;
        type Item = <&'a mut I as IntoParallelIterator>::Item;
        fn par_iter_mut(&'a mut self) -> Self::Iter {
            self.into_par_iter()
        }
    }

    pub trait ParallelSlice<T: Sync> {
        fn as_parallel_slice(&self) -> &[T];
        fn par_chunks(&self, n: usize) -> VecIter<&[T]> {
            VecIter { v: self.as_parallel_slice().chunks(n).collect() }
        }
        fn par_chunks_exact(&self, n: usize) -> VecIter<&[T]> {
            VecIter { v: self.as_parallel_slice().chunks_exact(n).collect() }
        }
    }
    impl<T: Sync> ParallelSlice<T> for [T] {
        fn as_parallel_slice(&self) -> &[T] {
            self
        }
    }
    pub trait ParallelSliceMut<T: Send> {
        fn as_parallel_slice_mut(&mut self) -> &mut [T];
        fn par_chunks_mut(&mut self, n: usize) -> VecIter<&mut [T]> {
            VecIter { v: self.as_parallel_slice_mut().chunks_mut(n).collect() }
        }
        fn par_chunks_exact_mut(&mut self, n: usize) -> VecIter<&mut [T]> {
            VecIter { v: self.as_parallel_slice_mut().chunks_exact_mut(n).collect() }
        }
    }
    impl<T: Send> ParallelSliceMut<T> for [T] {
        fn as_parallel_slice_mut(&mut self) -> &mut [T] {
            self
        }
    }

    pub struct Zip<A, B> {
        a: A,
        b: B,
    }
    impl<A: IndexedParallelIterator, B: IndexedParallelIterator> ParallelIterator for Zip<A, B> {
        type Item = (A::Item, B::Item);
        fn drive<S: Fn(usize, Self::Item) + Sync + Send>(self, sink: S) {
            drive_items(self.into_items(), sink)
        }
    }
    impl<A: IndexedParallelIterator, B: IndexedParallelIterator> IndexedParallelIterator for Zip<A, B> {
        fn into_items(self) -> Vec<Self::Item> {
            self.a.into_items().into_iter().zip(self.b.into_items()).collect()
        }
    }

    pub struct Enumerate<A> {
        base: A,
    }
    impl<A: IndexedParallelIterator> ParallelIterator for Enumerate<A> {
        type Item = (usize, A::Item);
        fn drive<S: Fn(usize, Self::Item) + Sync + Send>(self, sink: S) {
            drive_items(self.into_items(), sink)
        }
    }
    impl<A: IndexedParallelIterator> IndexedParallelIterator for Enumerate<A> {
        fn into_items(self) -> Vec<Self::Item> {
            self.base.into_items().into_iter().enumerate().collect()
        }
    }

    pub struct Map<A, F> {
        base: A,
        f: F,
    }
    impl<A: ParallelIterator, R: Send, F: Fn(A::Item) -> R + Sync + Send> ParallelIterator for Map<A, F> {
        type Item = R;
        fn drive<S: Fn(usize, R) + Sync + Send>(self, sink: S) {
            let f = self.f;
            self.base.drive(move |i, it| sink(i, f(it)))
        }
    }

    pub struct Filter<A, P> {
        base: A,
        p: P,
    }
    impl<A: ParallelIterator, P: Fn(&A::Item) -> bool + Sync + Send> ParallelIterator for Filter<A, P> {
        type Item = A::Item;
        fn drive<S: Fn(usize, A::Item) + Sync + Send>(self, sink: S) {
            let p = self.p;
            self.base.drive(move |i, it| {
                if p(&it) {
                    sink(i, it)
                }
            })
        }
    }
}

pub mod slice {
    pub use crate::iter::{ParallelSlice, ParallelSliceMut};
}

pub mod prelude {
    pub use crate::iter::{
        IndexedParallelIterator, IntoParallelIterator, IntoParallelRefIterator, IntoParallelRefMutIterator, ParallelIterator,
        ParallelSlice, ParallelSliceMut,
    };
}

/// `rayon::join`: two jobs of one phase.
pub fn join<A, B, RA, RB>(a: A, b: B) -> (RA, RB)
where
    A: FnOnce() -> RA + Send,
    B: FnOnce() -> RB + Send,
    RA: Send,
    RB: Send,
{
    enum Job<A, B> {
        A(A),
        B(B),
    }
    let ra: std::sync::Mutex<Option<RA>> = std::sync::Mutex::new(None);
    let rb: std::sync::Mutex<Option<RB>> = std::sync::Mutex::new(None);
    run_jobs(vec![Job::A(a), Job::B(b)], |j| match j {
        Job::A(a) => *ra.lock().unwrap() = Some(a()),
        Job::B(b) => *rb.lock().unwrap() = Some(b()),
    });
    let x = ra.lock().unwrap().take().unwrap();
    let y = rb.lock().unwrap().take().unwrap();
    (x, y)
}

#[cfg(test)]
mod tests {
    use crate::prelude::*;

    #[test]
    fn api_smoke() {
        shuttle::check_random(
            || {
                crate::sim::set_pool(&[4]);
                let v: Vec<u32> = (0..20).collect();
                let s: u32 = v.par_iter().map(|x| *x * 2).sum();
                assert_eq!(s, 380);
                let mut w = vec![0u32; 10];
                w.par_iter_mut().enumerate().for_each(|(i, x)| *x = i as u32);
                assert_eq!(w, (0..10).collect::<Vec<u32>>());
                let mut buf = vec![1u8; 12];
                buf.par_chunks_mut(5).for_each(|c| c.iter_mut().for_each(|b| *b += 1));
                assert!(buf.iter().all(|b| *b == 2));
                let c: Vec<u32> = v.clone().into_par_iter().filter(|x| x % 2 == 0).collect();
                assert_eq!(c.len(), 10);
                assert!(v.par_iter().any(|x| *x == 7));
                let (a, b) = crate::join(|| 1, || 2);
                assert_eq!((a, b), (1, 2));
                let z: Vec<(u32, u32)> = v.clone().into_par_iter().zip(v.clone()).collect();
                assert_eq!(z[3], (3, 3));
            },
            50,
        );
    }
}
