//! Shared core of the simulator: allocation zones, the guard-page slot arena
//! (`#[global_allocator]` of the runner binary), the crash monitor, the event log the
//! `rayon` stand-in and the harness containers write to, and the PRNG.
//!
//! Everything here runs on ONE OS thread (shuttle tasks are coroutines), so the global
//! state is plain cells behind tiny wrappers.

pub mod arena;
pub mod events;
pub mod prng;
pub mod zone;

pub use prng::Rng;

/// A scheduling point that keeps the context (allocation zone, current job, client) of
/// the yielding task.
pub fn sched_yield() {
    let c = events::save_ctx();
    zone::set(zone::OFF);
    shuttle::thread::yield_now();
    events::restore_ctx(c);
}
