#!/bin/bash
# eval_all.sh: run the registered quick checks against every kept seeded change, every
# reverted fix and the own probes; one summary line per (change, check) in $1 (default
# /tmp/eval_all.tsv). Scratch worktrees only; /repo is never modified.
out=${1:-/tmp/eval_all.tsv}
: > $out
run() { # name patch checks...
  name=$1; patch=$2; shift 2
  for p in "$@"; do
    log=$(/verif/tools/eval_mutant.sh $name $patch $p 2>&1)
    viol=$(echo "$log" | grep -c "^VIOLATION")
    runs=$(echo "$log" | grep -E "quick (opt|dbg):" | sed -E 's/.*: ([0-9]+) runs, ([0-9]+) violating runs, ([0-9]+) crashes.*/\1 runs \2 violating \3 crashes/' | tr '\n' ';')
    ok=$(echo "$log" | grep -c "^OK property")
    harness=$(echo "$log" | grep -c "HARNESS-ERROR")
    echo -e "$name\t$p\tviolation_lines=$viol\tok=$ok\tharness_error=$harness\t$runs" >> $out
  done
}
run C03a /verif/seeded/C03a/patch.diff C03
run C05a /verif/seeded/C05a/patch.diff C05 C08 C13
run C08a /verif/seeded/C08a/patch.diff C08
run C09a /verif/seeded/C09a/patch.diff C09
run C13a /verif/seeded/C13a/patch.diff C13
run C03b /verif/seeded/C03b/patch.diff C03 C09
run C05b /verif/seeded/C05b/patch.diff C05
run C08b /verif/seeded/C08b/patch.diff C08
run C09b /verif/seeded/C09b/patch.diff C09
run C13b /verif/seeded/C13b/patch.diff C13
run C03c /verif/seeded/C03c/patch.diff C03
run C05c /verif/seeded/C05c/patch.diff C05
run C08c /verif/seeded/C08c/patch.diff C08
run C09c /verif/seeded/C09c/patch.diff C09
run C13c /verif/seeded/C13c/patch.diff C13
run C03d /verif/seeded/C03d/patch.diff C03 C08
run C05d /verif/seeded/C05d/patch.diff C05
run C08d /verif/seeded/C08d/patch.diff C08
run C09d /verif/seeded/C09d/patch.diff C09
run C13d /verif/seeded/C13d/patch.diff C13
run C03e /verif/seeded/C03e/patch.diff C03
run C05e /verif/seeded/C05e/patch.diff C05
run C08e /verif/seeded/C08e/patch.diff C08
run C09e /verif/seeded/C09e/patch.diff C09
run C13e /verif/seeded/C13e/patch.diff C13
for c in 81f09a6:C03 33498b0:C08 e5dc9d9:C03 d410cc1:C03 8c34762:C05 c51a7e1:C05 f680286:C05 b5986a5:C05 a586016:C05 dfa1e40:C03 81624a6:C03 98a2b1e:C03; do
  h=${c%%:*}; p=${c#*:}; run revert-$h /verif/seeded/reverts/$h.diff $p
done
run own-M1 /verif/seeded/own/M1-no-alignment-gap.diff C09
run own-M5 /verif/seeded/own/M5-cropped-split-ignores-top.diff C08
echo done >> $out
