//! User-side buffers and containers: arena-placed backing stores, the harness container
//! `SimImage` (an implementation of the public `ImageView(Mut)` traits), and the builders
//! that wrap a backing store into each library container kind.

use crate::scenario::*;
use fast_image_resize as fir;
use fir::images::{
    CroppedImage, CroppedImageMut, Image, ImageRef, TypedCroppedImage, TypedCroppedImageMut, TypedImage,
    TypedImageRef,
};
use fir::pixels::InnerPixel;
use fir::{ImageView, ImageViewMut, IntoImageView, IntoImageViewMut, PixelTrait};
use simcore::{arena, events, zone, Rng};
use std::sync::atomic::{AtomicU64, Ordering};

pub const TAG_SRC: u8 = 1;
pub const TAG_DST: u8 = 2;

pub fn fir_pt(pt: Pt) -> fir::PixelType {
    use fir::PixelType as T;
    match pt {
        Pt::U8 => T::U8,
        Pt::U8x2 => T::U8x2,
        Pt::U8x3 => T::U8x3,
        Pt::U8x4 => T::U8x4,
        Pt::U16 => T::U16,
        Pt::U16x2 => T::U16x2,
        Pt::U16x3 => T::U16x3,
        Pt::U16x4 => T::U16x4,
        Pt::I32 => T::I32,
        Pt::F32 => T::F32,
        Pt::F32x2 => T::F32x2,
        Pt::F32x3 => T::F32x3,
        Pt::F32x4 => T::F32x4,
    }
}

/// Geometry of an image inside its backing store.
#[derive(Clone, Copy, Debug)]
pub struct Geo {
    pub w: u32,
    pub h: u32,
    /// parent dimensions (pixels)
    pub pw: u32,
    pub ph: u32,
    /// row stride of the backing store in pixels (>= pw)
    pub stride: usize,
    /// origin of the logical rectangle in the parent
    pub ox: u32,
    pub oy: u32,
    /// inner ring (crop of crop): origin of the first crop in the parent and its size
    pub o2x: u32,
    pub o2y: u32,
    pub mw: u32,
    pub mh: u32,
    pub tail: u32,
    pub px: usize,
    /// bytes in front of the image inside the backing allocation (deliberate misalignment)
    pub off: usize,
}

pub fn geo(img: &Img, pt: Pt) -> Geo {
    let k = img.kind;
    let pad = if k.is_cropped() { img.pad } else { [0; 4] };
    let pad2 = if matches!(k, Kind::Crop2 | Kind::DynCrop2) { img.pad2 } else { [0; 4] };
    let mw = img.w + pad[0] + pad[2];
    let mh = img.h + pad[1] + pad[3];
    let pw = mw + pad2[0] + pad2[2];
    let ph = mh + pad2[1] + pad2[3];
    let stride = pw as usize + if k.is_sim() { img.stride_extra as usize } else { 0 };
    let tail = if k.allows_tail() { img.tail } else { 0 };
    Geo {
        w: img.w,
        h: img.h,
        pw,
        ph,
        stride,
        ox: pad[0] + pad2[0],
        oy: pad[1] + pad2[1],
        o2x: pad2[0],
        o2y: pad2[1],
        mw,
        mh,
        tail,
        px: pt.size(),
        off: if matches!(k, Kind::Buffer | Kind::DynSlice | Kind::DynImgAsSrc) { (img.misalign & 15) as usize } else { 0 },
    }
}

/// A user buffer placed by the arena (flush against a guard page).
pub struct Backing {
    pub vec: Vec<u8>,
    pub g: Geo,
    pub pt: Pt,
}

impl Backing {
    pub fn new(img: &Img, pt: Pt, tag: u8) -> Backing {
        let g = geo(img, pt);
        let len = (g.ph as usize * g.stride + g.tail as usize) * g.px + g.off;
        let vec = {
            let _z = zone::enter(zone::USER);
            arena::next_alloc(tag, img.place.clamp(1, 2), pt.align().max(1));
            let mut v: Vec<u8> = Vec::with_capacity(len.max(1));
            unsafe { v.set_len(len) };
            v
        };
        Backing { vec, g, pt }
    }
    pub fn bytes(&self) -> &[u8] {
        &self.vec
    }
    #[allow(clippy::mut_from_ref)]
    pub unsafe fn raw_bytes_mut(&self) -> &'static mut [u8] {
        std::slice::from_raw_parts_mut((self.vec.as_ptr() as *mut u8).add(self.g.off), self.vec.len() - self.g.off)
    }
    pub unsafe fn raw_bytes(&self) -> &'static [u8] {
        std::slice::from_raw_parts(self.vec.as_ptr().add(self.g.off), self.vec.len() - self.g.off)
    }
    // typed slices are only taken from stores without a misalignment prefix
    pub unsafe fn raw_pixels<P>(&self) -> &'static [P] {
        debug_assert!(self.g.off == 0);
        std::slice::from_raw_parts(self.vec.as_ptr() as *const P, self.vec.len() / self.g.px)
    }
    pub unsafe fn raw_pixels_mut<P>(&self) -> &'static mut [P] {
        debug_assert!(self.g.off == 0);
        std::slice::from_raw_parts_mut(self.vec.as_ptr() as *mut P, self.vec.len() / self.g.px)
    }
    /// byte range of logical row `y`
    pub fn row_range(&self, y: u32) -> (usize, usize) {
        let g = &self.g;
        let start = ((g.oy + y) as usize * g.stride + g.ox as usize) * g.px + g.off;
        (start, start + g.w as usize * g.px)
    }
    /// is byte offset `i` inside the logical rectangle?
    pub fn in_rect(&self, i: usize) -> bool {
        let g = &self.g;
        if i < g.off || g.stride == 0 {
            return false;
        }
        let i = i - g.off;
        let p = i / g.px;
        let y = p / g.stride;
        let x = p % g.stride;
        y >= g.oy as usize && y < (g.oy + g.h) as usize && x >= g.ox as usize && x < (g.ox + g.w) as usize
    }
    pub fn logical(&self) -> Vec<u8> {
        let mut out = Vec::with_capacity(self.g.w as usize * self.g.h as usize * self.g.px);
        for y in 0..self.g.h {
            let (a, b) = self.row_range(y);
            out.extend_from_slice(&self.vec[a..b]);
        }
        out
    }
    pub fn set_logical(&mut self, data: &[u8]) {
        let rl = self.g.w as usize * self.g.px;
        for y in 0..self.g.h {
            let (a, b) = self.row_range(y);
            self.vec[a..b].copy_from_slice(&data[y as usize * rl..(y as usize + 1) * rl]);
        }
    }
}

pub fn sentinel_fill(buf: &mut [u8], which: u8) {
    for (i, b) in buf.iter_mut().enumerate() {
        let a = ((i as u32).wrapping_mul(131).wrapping_add(17) as u8) ^ 0x3C;
        *b = if which == 0 { a } else { !a };
    }
}

/// Deterministic pixel content for `n` pixels of type `pt`.
pub fn content_bytes(pt: Pt, n: usize, w: usize, content: Content, seed: u64) -> Vec<u8> {
    let mut rng = Rng::new(seed ^ 0xC0FFEE);
    let comps = pt.comps();
    let ck = pt.comp_kind();
    let mut out = Vec::with_capacity(n * pt.size());
    let w = w.max(1);
    // SparseAlpha: up to four translucent pixels, anywhere
    let mut sparse = [usize::MAX; 4];
    if content == Content::SparseAlpha && n > 0 {
        let k = 1 + (seed % 4) as usize;
        let mut r2 = Rng::new(seed ^ 0x5AA5);
        for s in sparse.iter_mut().take(k) {
            *s = r2.below(n as u64) as usize;
        }
    }
    for i in 0..n {
        let (x, y) = (i % w, i / w);
        for c in 0..comps {
            let is_alpha = pt.has_alpha() && c == comps - 1;
            // value in 0..=65535 scale + raw random
            let r = rng.next_u64();
            let v16: u32 = match content {
                Content::Random | Content::Cancel => (r & 0xffff) as u32,
                Content::Tiny => (r & 0x3ff) as u32,
                Content::Ramp => ((x * 7 + y * 13 + c * 29) & 0xffff) as u32 * 257 % 65536,
                Content::Zeros => 0,
                Content::Ones => 0xffff,
                Content::Checker => {
                    if (x + y + c) % 2 == 0 {
                        0
                    } else {
                        0xffff
                    }
                }
                Content::Blocks => {
                    let bw = ((seed & 0xffff) as usize).max(1);
                    let bh = (((seed >> 16) & 0xffff) as usize).max(1);
                    if (x / bw + y / bh) % 2 == 0 {
                        0xffff
                    } else {
                        0
                    }
                }
                Content::Opaque | Content::SparseAlpha => {
                    if is_alpha {
                        if content == Content::SparseAlpha && sparse.contains(&i) {
                            ((r >> 24) & 0xfffe) as u32
                        } else {
                            0xffff
                        }
                    } else {
                        (r & 0xffff) as u32
                    }
                }
                Content::AlphaEdges => {
                    if is_alpha {
                        match (r >> 20) % 4 {
                            0 => 0,
                            1 => 0xffff,
                            2 => 1 + ((r >> 24) & 3) as u32 * 257,
                            _ => ((r >> 24) & 0xffff) as u32,
                        }
                    } else {
                        (r & 0xffff) as u32
                    }
                }
            };
            match ck {
                0 => out.push((v16 >> 8) as u8),
                1 => out.extend_from_slice(&(v16 as u16).to_ne_bytes()),
                2 => {
                    let v: i32 = match content {
                        Content::Random | Content::Cancel | Content::AlphaEdges | Content::Opaque | Content::SparseAlpha => (r >> 16) as i32,
                        Content::Tiny => (v16 & 0xff) as i32,
                        Content::Zeros => 0,
                        Content::Ones => i32::MAX,
                        Content::Checker | Content::Blocks => {
                            if v16 == 0 {
                                i32::MIN
                            } else {
                                i32::MAX
                            }
                        }
                        Content::Ramp => v16 as i32 * 1000 - 30_000_000,
                    };
                    out.extend_from_slice(&v.to_ne_bytes());
                }
                _ => {
                    let f: f32 = match content {
                        Content::Random => {
                            let k = r >> 59; // 0..32
                            if k < 22 {
                                v16 as f32 / 65535.0
                            } else if k < 30 {
                                (v16 as f32 - 32768.0) / 32.0
                            } else {
                                // subnormal values (flush-to-zero / denormals-are-zero modes of
                                // the FPU would change them)
                                f32::from_bits(1 + (v16 & 0x7fff))
                            }
                        }
                        Content::Tiny => f32::from_bits(1 + ((r >> 20) as u32 & 0x3f_ffff)),
                        Content::Cancel => {
                            const PATS: [[i8; 4]; 4] = [[1, 0, -1, 0], [1, -1, 0, 0], [1, 0, 0, -1], [0, 1, -1, 0]];
                            let pat = PATS[(seed & 3) as usize];
                            let big = f32::from_bits(((127 + 55 + ((seed >> 2) % 46) as u32) & 0xff) << 23);
                            match pat[(x + y + c) & 3] {
                                1 => big,
                                -1 => -big,
                                _ => v16 as f32 / 65535.0,
                            }
                        }
                        _ => v16 as f32 / 65535.0,
                    };
                    out.extend_from_slice(&f.to_ne_bytes());
                }
            }
        }
    }
    out
}

// ---------------------------------------------------------------------------------------
// The harness container.

// hand-outs of the current operation, per client and per image (0 = source, 1 = destination)
static HANDOUT_COUNTER: [[AtomicU64; 2]; 4] = [
    [AtomicU64::new(0), AtomicU64::new(0)],
    [AtomicU64::new(0), AtomicU64::new(0)],
    [AtomicU64::new(0), AtomicU64::new(0)],
    [AtomicU64::new(0), AtomicU64::new(0)],
];
pub fn reset_handout_counter() {
    let c = &HANDOUT_COUNTER[(events::current_client() & 3) as usize];
    c[0].store(0, Ordering::Relaxed);
    c[1].store(0, Ordering::Relaxed);
}
#[inline]
fn next_handout(id: u8) -> u64 {
    HANDOUT_COUNTER[(events::current_client() & 3) as usize][(id & 1) as usize].fetch_add(1, Ordering::Relaxed) + 1
}

pub const INJECTED_PANIC: &str = "SIM-INJECTED-PANIC";

#[derive(Clone, Copy)]
pub struct SimCore<P> {
    base: *mut P,
    stride: usize,
    width: u32,
    height: u32,
    id: u8,
    yield_rows: bool,
    panic_at: u64,
}
unsafe impl<P: Send> Send for SimCore<P> {}
unsafe impl<P: Sync> Sync for SimCore<P> {}

impl<P> SimCore<P> {
    #[inline]
    fn hand(&self, row: u32, mutable: bool) {
        let n = next_handout(self.id);
        events::handout(self.id, row, mutable);
        if self.panic_at != 0 && n == self.panic_at {
            panic!("{}", INJECTED_PANIC);
        }
        if self.yield_rows {
            simcore::sched_yield();
        }
    }
    #[inline]
    fn row(&self, y: u32) -> &[P] {
        unsafe { std::slice::from_raw_parts(self.base.add(y as usize * self.stride), self.width as usize) }
    }
    #[inline]
    #[allow(clippy::mut_from_ref)]
    fn row_mut(&self, y: u32) -> &mut [P] {
        unsafe { std::slice::from_raw_parts_mut(self.base.add(y as usize * self.stride), self.width as usize) }
    }
}

/// Rows are exactly `width` long and there are exactly `height` of them - what every
/// library container hands out - but they live `stride` pixels apart, every hand-out is a
/// scheduling point (optional) and is logged, and the k-th hand-out may panic.
/// Split requests use the trait's default implementations.
pub struct SimImage<P>(pub SimCore<P>);
/// Same, but declines every split request (the library must fall back to one thread).
pub struct SimImageNoSplit<P>(pub SimCore<P>);

pub fn sim_core<P>(b: &Backing, img: &Img, id: u8) -> SimCore<P> {
    SimCore {
        base: b.vec.as_ptr() as *mut P,
        stride: b.g.stride,
        width: b.g.pw,
        height: b.g.ph,
        id,
        yield_rows: img.yield_rows,
        panic_at: img.panic_at,
    }
}

unsafe impl<P: InnerPixel> ImageView for SimImage<P> {
    type Pixel = P;
    fn width(&self) -> u32 {
        self.0.width
    }
    fn height(&self) -> u32 {
        self.0.height
    }
    fn iter_rows(&self, start_row: u32) -> impl Iterator<Item = &[P]> {
        let c = &self.0;
        (start_row.min(c.height)..c.height).map(move |y| {
            c.hand(y, false);
            c.row(y)
        })
    }
}
unsafe impl<P: InnerPixel> ImageViewMut for SimImage<P> {
    fn iter_rows_mut(&mut self, start_row: u32) -> impl Iterator<Item = &mut [P]> {
        let c = self.0;
        (start_row.min(c.height)..c.height).map(move |y| {
            c.hand(y, true);
            let r: &mut [P] = unsafe { std::slice::from_raw_parts_mut(c.base.add(y as usize * c.stride), c.width as usize) };
            r
        })
    }
}

unsafe impl<P: InnerPixel> ImageView for SimImageNoSplit<P> {
    type Pixel = P;
    fn width(&self) -> u32 {
        self.0.width
    }
    fn height(&self) -> u32 {
        self.0.height
    }
    fn iter_rows(&self, start_row: u32) -> impl Iterator<Item = &[P]> {
        let c = &self.0;
        (start_row.min(c.height)..c.height).map(move |y| {
            c.hand(y, false);
            c.row(y)
        })
    }
    fn split_by_height(
        &self,
        _start_row: u32,
        _height: std::num::NonZeroU32,
        _num_parts: std::num::NonZeroU32,
    ) -> Option<Vec<impl ImageView<Pixel = P>>> {
        None::<Vec<TypedImageRef<'static, P>>>
    }
    fn split_by_width(
        &self,
        _start_col: u32,
        _width: std::num::NonZeroU32,
        _num_parts: std::num::NonZeroU32,
    ) -> Option<Vec<impl ImageView<Pixel = P>>> {
        None::<Vec<TypedImageRef<'static, P>>>
    }
}
unsafe impl<P: InnerPixel> ImageViewMut for SimImageNoSplit<P> {
    fn iter_rows_mut(&mut self, start_row: u32) -> impl Iterator<Item = &mut [P]> {
        let c = self.0;
        (start_row.min(c.height)..c.height).map(move |y| {
            c.hand(y, true);
            let r: &mut [P] = unsafe { std::slice::from_raw_parts_mut(c.base.add(y as usize * c.stride), c.width as usize) };
            r
        })
    }
    fn split_by_height_mut(
        &mut self,
        _start_row: u32,
        _height: std::num::NonZeroU32,
        _num_parts: std::num::NonZeroU32,
    ) -> Option<Vec<impl ImageViewMut<Pixel = P>>> {
        None::<Vec<TypedImage<'static, P>>>
    }
    fn split_by_width_mut(
        &mut self,
        _start_col: u32,
        _width: std::num::NonZeroU32,
        _num_parts: std::num::NonZeroU32,
    ) -> Option<Vec<impl ImageViewMut<Pixel = P>>> {
        None::<Vec<TypedImage<'static, P>>>
    }
}

/// Adapter around ANY library container: identical pixels, rows and split behaviour (all
/// calls are delegated, so the library's own specialised `split_by_*` run), but every row
/// hand-out is logged, may panic (fault F4) and is a scheduling point. Brings row-granular
/// pre-emption to the slice-based and offset-composing split implementations.
pub struct YieldView<V> {
    pub inner: V,
    pub id: u8,
    pub yield_rows: bool,
    pub panic_at: u64,
}

impl<V> YieldView<V> {
    #[inline]
    fn hand(id: u8, yield_rows: bool, panic_at: u64, mutable: bool) {
        let n = next_handout(id);
        // rows of a band are numbered relative to the band: logged under image ids 2 / 3,
        // which the row-tiling oracle ignores
        events::handout(id + 2, u32::MAX, mutable);
        if panic_at != 0 && n == panic_at {
            panic!("{}", INJECTED_PANIC);
        }
        if yield_rows {
            simcore::sched_yield();
        }
    }
    fn wrap<W>(&self, inner: W) -> YieldView<W> {
        YieldView { inner, id: self.id, yield_rows: self.yield_rows, panic_at: self.panic_at }
    }
}

unsafe impl<V: ImageView> ImageView for YieldView<V> {
    type Pixel = V::Pixel;
    fn width(&self) -> u32 {
        self.inner.width()
    }
    fn height(&self) -> u32 {
        self.inner.height()
    }
    fn iter_rows(&self, start_row: u32) -> impl Iterator<Item = &[Self::Pixel]> {
        let (id, y, p) = (self.id, self.yield_rows, self.panic_at);
        self.inner.iter_rows(start_row).map(move |r| {
            Self::hand(id, y, p, false);
            r
        })
    }
    fn iter_rows_with_step(&self, start_y: f64, step: f64, max_rows: u32) -> impl Iterator<Item = &[Self::Pixel]> {
        let (id, y, p) = (self.id, self.yield_rows, self.panic_at);
        self.inner.iter_rows_with_step(start_y, step, max_rows).map(move |r| {
            Self::hand(id, y, p, false);
            r
        })
    }
    fn split_by_height(
        &self,
        start_row: u32,
        height: std::num::NonZeroU32,
        num_parts: std::num::NonZeroU32,
    ) -> Option<Vec<impl ImageView<Pixel = Self::Pixel>>> {
        self.inner.split_by_height(start_row, height, num_parts).map(|v| v.into_iter().map(|p| self.wrap(p)).collect())
    }
    fn split_by_width(
        &self,
        start_col: u32,
        width: std::num::NonZeroU32,
        num_parts: std::num::NonZeroU32,
    ) -> Option<Vec<impl ImageView<Pixel = Self::Pixel>>> {
        self.inner.split_by_width(start_col, width, num_parts).map(|v| v.into_iter().map(|p| self.wrap(p)).collect())
    }
}

unsafe impl<V: ImageViewMut> ImageViewMut for YieldView<V> {
    fn iter_rows_mut(&mut self, start_row: u32) -> impl Iterator<Item = &mut [Self::Pixel]> {
        let (id, y, p) = (self.id, self.yield_rows, self.panic_at);
        self.inner.iter_rows_mut(start_row).map(move |r| {
            Self::hand(id, y, p, true);
            r
        })
    }
    fn split_by_height_mut(
        &mut self,
        start_row: u32,
        height: std::num::NonZeroU32,
        num_parts: std::num::NonZeroU32,
    ) -> Option<Vec<impl ImageViewMut<Pixel = Self::Pixel>>> {
        let (id, y, p) = (self.id, self.yield_rows, self.panic_at);
        self.inner
            .split_by_height_mut(start_row, height, num_parts)
            .map(|v| v.into_iter().map(|inner| YieldView { inner, id, yield_rows: y, panic_at: p }).collect())
    }
    fn split_by_width_mut(
        &mut self,
        start_col: u32,
        width: std::num::NonZeroU32,
        num_parts: std::num::NonZeroU32,
    ) -> Option<Vec<impl ImageViewMut<Pixel = Self::Pixel>>> {
        let (id, y, p) = (self.id, self.yield_rows, self.panic_at);
        self.inner
            .split_by_width_mut(start_col, width, num_parts)
            .map(|v| v.into_iter().map(|inner| YieldView { inner, id, yield_rows: y, panic_at: p }).collect())
    }
}

#[allow(dead_code)]
fn _unused<P>(c: &SimCore<P>) {
    let _ = c.row_mut(0);
}

// ---------------------------------------------------------------------------------------
// View classes and the pairs the harness instantiates.

#[derive(Clone, Copy, Debug, PartialEq, Eq)]
pub enum SrcClass {
    Ref,
    Img,
    Crop,
    Crop2,
    Sim,
    SimNoSplit,
    CropSim,
    YRef,
    YCrop,
    CropM,
    DRef,
    DImg,
    DCrop,
    DCrop2,
    DCropM,
}
#[derive(Clone, Copy, Debug, PartialEq, Eq)]
pub enum DstClass {
    Img,
    Crop,
    Crop2,
    Sim,
    SimNoSplit,
    CropSim,
    YImg,
    YCrop,
    DImg,
    DCrop,
    DCrop2,
}

pub fn src_class(k: Kind) -> SrcClass {
    match k {
        Kind::Slice | Kind::Buffer => SrcClass::Ref,
        Kind::ImgAsSrc | Kind::Owned => SrcClass::Img,
        Kind::CropRef | Kind::CropNew => SrcClass::Crop,
        Kind::CropMutAsSrc => SrcClass::CropM,
        Kind::DynCropMutAsSrc => SrcClass::DCropM,
        Kind::Crop2 => SrcClass::Crop2,
        Kind::Sim => SrcClass::Sim,
        Kind::SimNoSplit => SrcClass::SimNoSplit,
        Kind::CropSim => SrcClass::CropSim,
        Kind::YSlice => SrcClass::YRef,
        Kind::YCrop => SrcClass::YCrop,
        Kind::DynSlice => SrcClass::DRef,
        Kind::DynImgAsSrc | Kind::DynOwned => SrcClass::DImg,
        Kind::DynCrop => SrcClass::DCrop,
        Kind::DynCrop2 => SrcClass::DCrop2,
    }
}
pub fn dst_class(k: Kind) -> DstClass {
    match k {
        Kind::Slice | Kind::Buffer | Kind::Owned | Kind::ImgAsSrc => DstClass::Img,
        Kind::CropRef | Kind::CropNew | Kind::CropMutAsSrc => DstClass::Crop,
        Kind::DynCropMutAsSrc => DstClass::DCrop,
        Kind::Crop2 => DstClass::Crop2,
        Kind::Sim => DstClass::Sim,
        Kind::SimNoSplit => DstClass::SimNoSplit,
        Kind::CropSim => DstClass::CropSim,
        Kind::YSlice => DstClass::YImg,
        Kind::YCrop => DstClass::YCrop,
        Kind::DynSlice | Kind::DynOwned | Kind::DynImgAsSrc => DstClass::DImg,
        Kind::DynCrop => DstClass::DCrop,
        Kind::DynCrop2 => DstClass::DCrop2,
    }
}

/// The (source, destination) view-class pairs that are compiled in.
pub fn pair_ok(s: Kind, d: Kind) -> bool {
    use DstClass as D;
    use SrcClass as S;
    matches!(
        (src_class(s), dst_class(d)),
        (S::Ref, D::Img)
            | (S::Img, D::Img)
            | (S::Crop, D::Img)
            | (S::Ref, D::Crop)
            | (S::Crop, D::Crop)
            | (S::Crop2, D::Crop2)
            | (S::Sim, D::Sim)
            | (S::Ref, D::Sim)
            | (S::Sim, D::Img)
            | (S::SimNoSplit, D::Img)
            | (S::Ref, D::SimNoSplit)
            | (S::CropSim, D::CropSim)
            | (S::YRef, D::YImg)
            | (S::YCrop, D::YCrop)
            | (S::CropM, D::Img)
            | (S::CropM, D::Crop)
            | (S::DCropM, D::DImg)
            | (S::DCropM, D::DCrop)
            | (S::DRef, D::DImg)
            | (S::DImg, D::DImg)
            | (S::DCrop, D::DImg)
            | (S::DRef, D::DCrop)
            | (S::DCrop, D::DCrop)
            | (S::DCrop2, D::DCrop2)
    )
}

pub trait TypedOp2<P: PixelTrait, R> {
    fn call<S: ImageView<Pixel = P>, D: ImageViewMut<Pixel = P>>(&mut self, s: &S, d: &mut D) -> R;
}
pub trait TypedOp1<P: PixelTrait, R> {
    fn call<D: ImageViewMut<Pixel = P>>(&mut self, d: &mut D) -> R;
}
pub trait DynOp2<R> {
    fn call<S: IntoImageView, D: IntoImageViewMut>(&mut self, s: &S, d: &mut D) -> R;
}
pub trait DynOp1<R> {
    fn call<D: IntoImageViewMut>(&mut self, d: &mut D) -> R;
}

// --- typed sources

fn src_ref<'a, P: InnerPixel>(si: &Img, sb: &'a Backing) -> TypedImageRef<'a, P> {
    let g = sb.g;
    unsafe {
        match si.kind {
            Kind::Buffer => TypedImageRef::<P>::from_buffer(g.pw, g.ph, sb.raw_bytes()).unwrap(),
            _ => TypedImageRef::<P>::new(g.pw, g.ph, sb.raw_pixels::<P>()).unwrap(),
        }
    }
}

fn src_img<'a, P: InnerPixel>(si: &Img, sb: &'a Backing) -> TypedImage<'a, P> {
    let g = sb.g;
    unsafe {
        match si.kind {
            Kind::Owned => {
                let _z = zone::enter(zone::USER);
                let mut t = TypedImage::<P>::new(g.pw, g.ph);
                t.pixels_mut().copy_from_slice(&sb.raw_pixels::<P>()[..(g.pw * g.ph) as usize]);
                t
            }
            _ => TypedImage::<P>::from_pixels_slice(g.pw, g.ph, sb.raw_pixels_mut::<P>()).unwrap(),
        }
    }
}

fn src_crop<'a, P: InnerPixel>(
    si: &Img,
    sb: &'a Backing,
    parent: &'a TypedImageRef<'a, P>,
) -> TypedCroppedImage<'a, TypedImageRef<'a, P>> {
    let g = sb.g;
    let [l, t, w, h] = si.view_override.unwrap_or([g.ox, g.oy, g.w, g.h]);
    match si.kind {
        Kind::CropNew => {
            let p = unsafe { TypedImageRef::<P>::new(g.pw, g.ph, sb.raw_pixels::<P>()).unwrap() };
            TypedCroppedImage::new(p, l, t, w, h).unwrap()
        }
        _ => TypedCroppedImage::from_ref(parent, l, t, w, h).unwrap(),
    }
}

// --- typed destinations

fn with_dst_img<P: InnerPixel, R>(di: &Img, db: &mut Backing, f: impl FnOnce(&mut TypedImage<P>) -> R) -> R {
    let g = db.g;
    unsafe {
        match di.kind {
            Kind::Owned => {
                let mut t = {
                    let _z = zone::enter(zone::USER);
                    TypedImage::<P>::new(g.pw, g.ph)
                };
                let n = (g.pw * g.ph) as usize;
                t.pixels_mut().copy_from_slice(&db.raw_pixels::<P>()[..n]);
                let r = f(&mut t);
                db.raw_pixels_mut::<P>()[..n].copy_from_slice(t.pixels());
                r
            }
            Kind::Buffer => {
                let mut t = TypedImage::<P>::from_buffer(g.pw, g.ph, db.raw_bytes_mut()).unwrap();
                f(&mut t)
            }
            _ => {
                let mut t = TypedImage::<P>::from_pixels_slice(g.pw, g.ph, db.raw_pixels_mut::<P>()).unwrap();
                f(&mut t)
            }
        }
    }
}

fn with_dst_crop<P: InnerPixel, R>(
    di: &Img,
    db: &mut Backing,
    f: impl FnOnce(&mut TypedCroppedImageMut<TypedImage<P>>) -> R,
) -> R {
    let g = db.g;
    unsafe {
        let mut parent = TypedImage::<P>::from_pixels_slice(g.pw, g.ph, db.raw_pixels_mut::<P>()).unwrap();
        match di.kind {
            Kind::CropNew => {
                let mut c = TypedCroppedImageMut::new(parent, g.ox, g.oy, g.w, g.h).unwrap();
                f(&mut c)
            }
            _ => {
                let mut c = TypedCroppedImageMut::from_ref(&mut parent, g.ox, g.oy, g.w, g.h).unwrap();
                f(&mut c)
            }
        }
    }
}

pub fn with_typed2<P: PixelTrait, R, O: TypedOp2<P, R>>(
    si: &Img,
    sb: &Backing,
    di: &Img,
    db: &mut Backing,
    op: &mut O,
) -> R {
    use DstClass as D;
    use SrcClass as S;
    let sg = sb.g;
    let dg = db.g;
    match (src_class(si.kind), dst_class(di.kind)) {
        (S::Ref, D::Img) => {
            let s = src_ref::<P>(si, sb);
            with_dst_img::<P, R>(di, db, |d| op.call(&s, d))
        }
        (S::Img, D::Img) => {
            let s = src_img::<P>(si, sb);
            with_dst_img::<P, R>(di, db, |d| op.call(&s, d))
        }
        (S::Crop, D::Img) => {
            let p = src_ref::<P>(si, sb);
            let s = src_crop::<P>(si, sb, &p);
            with_dst_img::<P, R>(di, db, |d| op.call(&s, d))
        }
        (S::Ref, D::Crop) => {
            let s = src_ref::<P>(si, sb);
            with_dst_crop::<P, R>(di, db, |d| op.call(&s, d))
        }
        (S::Crop, D::Crop) => {
            let p = src_ref::<P>(si, sb);
            let s = src_crop::<P>(si, sb, &p);
            with_dst_crop::<P, R>(di, db, |d| op.call(&s, d))
        }
        (S::Crop2, D::Crop2) => unsafe {
            let p = TypedImageRef::<P>::new(sg.pw, sg.ph, sb.raw_pixels::<P>()).unwrap();
            let m = TypedCroppedImage::new(p, sg.o2x, sg.o2y, sg.mw, sg.mh).unwrap();
            let s = TypedCroppedImage::new(m, sg.ox - sg.o2x, sg.oy - sg.o2y, sg.w, sg.h).unwrap();
            let dp = TypedImage::<P>::from_pixels_slice(dg.pw, dg.ph, db.raw_pixels_mut::<P>()).unwrap();
            let dm = TypedCroppedImageMut::new(dp, dg.o2x, dg.o2y, dg.mw, dg.mh).unwrap();
            let mut d = TypedCroppedImageMut::new(dm, dg.ox - dg.o2x, dg.oy - dg.o2y, dg.w, dg.h).unwrap();
            op.call(&s, &mut d)
        },
        (S::Sim, D::Sim) => {
            let s = SimImage(sim_core::<P>(sb, si, 0));
            let mut d = SimImage(sim_core::<P>(db, di, 1));
            op.call(&s, &mut d)
        }
        (S::Ref, D::Sim) => {
            let s = src_ref::<P>(si, sb);
            let mut d = SimImage(sim_core::<P>(db, di, 1));
            op.call(&s, &mut d)
        }
        (S::Sim, D::Img) => {
            let s = SimImage(sim_core::<P>(sb, si, 0));
            with_dst_img::<P, R>(di, db, |d| op.call(&s, d))
        }
        (S::SimNoSplit, D::Img) => {
            let s = SimImageNoSplit(sim_core::<P>(sb, si, 0));
            with_dst_img::<P, R>(di, db, |d| op.call(&s, d))
        }
        (S::Ref, D::SimNoSplit) => {
            let s = src_ref::<P>(si, sb);
            let mut d = SimImageNoSplit(sim_core::<P>(db, di, 1));
            op.call(&s, &mut d)
        }
        (S::CropSim, D::CropSim) => {
            let sp = SimImage(sim_core::<P>(sb, si, 0));
            let s = TypedCroppedImage::from_ref(&sp, sg.ox, sg.oy, sg.w, sg.h).unwrap();
            let dp = SimImage(sim_core::<P>(db, di, 1));
            let mut d = TypedCroppedImageMut::new(dp, dg.ox, dg.oy, dg.w, dg.h).unwrap();
            op.call(&s, &mut d)
        }
        (S::CropM, D::Img) => unsafe {
            let mut sp = TypedImage::<P>::from_pixels_slice(sg.pw, sg.ph, sb.raw_pixels_mut::<P>()).unwrap();
            let s = TypedCroppedImageMut::from_ref(&mut sp, sg.ox, sg.oy, sg.w, sg.h).unwrap();
            with_dst_img::<P, R>(di, db, |d| op.call(&s, d))
        },
        (S::CropM, D::Crop) => unsafe {
            let mut sp = TypedImage::<P>::from_pixels_slice(sg.pw, sg.ph, sb.raw_pixels_mut::<P>()).unwrap();
            let s = TypedCroppedImageMut::from_ref(&mut sp, sg.ox, sg.oy, sg.w, sg.h).unwrap();
            with_dst_crop::<P, R>(di, db, |d| op.call(&s, d))
        },
        (S::YRef, D::YImg) => {
            let s = YieldView { inner: src_ref::<P>(si, sb), id: 0, yield_rows: si.yield_rows, panic_at: si.panic_at };
            let (y, pa) = (di.yield_rows, di.panic_at);
            with_dst_img::<P, R>(di, db, |d| unsafe {
                // the adapter owns a view of the same pixels
                let inner = std::ptr::read(d as *const TypedImage<P>);
                let mut yv = std::mem::ManuallyDrop::new(YieldView { inner, id: 1, yield_rows: y, panic_at: pa });
                op.call(&s, &mut *yv)
            })
        }
        (S::YCrop, D::YCrop) => {
            let p = src_ref::<P>(si, sb);
            let s = YieldView { inner: src_crop::<P>(si, sb, &p), id: 0, yield_rows: si.yield_rows, panic_at: si.panic_at };
            let (y, pa) = (di.yield_rows, di.panic_at);
            with_dst_crop::<P, R>(di, db, |d| unsafe {
                let inner = std::ptr::read(d as *const TypedCroppedImageMut<TypedImage<P>>);
                let mut yv = std::mem::ManuallyDrop::new(YieldView { inner, id: 1, yield_rows: y, panic_at: pa });
                op.call(&s, &mut *yv)
            })
        }
        (a, b) => panic!("harness: view pair {:?}/{:?} is not compiled in", a, b),
    }
}

pub fn with_typed1<P: PixelTrait, R, O: TypedOp1<P, R>>(di: &Img, db: &mut Backing, op: &mut O) -> R {
    use DstClass as D;
    let dg = db.g;
    match dst_class(di.kind) {
        D::Img => with_dst_img::<P, R>(di, db, |d| op.call(d)),
        D::Crop => with_dst_crop::<P, R>(di, db, |d| op.call(d)),
        D::Crop2 => unsafe {
            let dp = TypedImage::<P>::from_pixels_slice(dg.pw, dg.ph, db.raw_pixels_mut::<P>()).unwrap();
            let dm = TypedCroppedImageMut::new(dp, dg.o2x, dg.o2y, dg.mw, dg.mh).unwrap();
            let mut d = TypedCroppedImageMut::new(dm, dg.ox - dg.o2x, dg.oy - dg.o2y, dg.w, dg.h).unwrap();
            op.call(&mut d)
        },
        D::Sim => {
            let mut d = SimImage(sim_core::<P>(db, di, 1));
            op.call(&mut d)
        }
        D::SimNoSplit => {
            let mut d = SimImageNoSplit(sim_core::<P>(db, di, 1));
            op.call(&mut d)
        }
        D::CropSim => {
            let dp = SimImage(sim_core::<P>(db, di, 1));
            let mut d = TypedCroppedImageMut::new(dp, dg.ox, dg.oy, dg.w, dg.h).unwrap();
            op.call(&mut d)
        }
        D::YImg => {
            let (y, pa) = (di.yield_rows, di.panic_at);
            with_dst_img::<P, R>(di, db, |d| unsafe {
                let inner = std::ptr::read(d as *const TypedImage<P>);
                let mut yv = std::mem::ManuallyDrop::new(YieldView { inner, id: 1, yield_rows: y, panic_at: pa });
                op.call(&mut *yv)
            })
        }
        D::YCrop => {
            let (y, pa) = (di.yield_rows, di.panic_at);
            with_dst_crop::<P, R>(di, db, |d| unsafe {
                let inner = std::ptr::read(d as *const TypedCroppedImageMut<TypedImage<P>>);
                let mut yv = std::mem::ManuallyDrop::new(YieldView { inner, id: 1, yield_rows: y, panic_at: pa });
                op.call(&mut *yv)
            })
        }
        b => panic!("harness: typed view {:?} is not compiled in", b),
    }
}

// --- dynamic containers

fn dsrc_ref<'a>(sb: &'a Backing, pt: Pt) -> ImageRef<'a> {
    let g = sb.g;
    unsafe { ImageRef::new(g.pw, g.ph, sb.raw_bytes(), fir_pt(pt)).unwrap() }
}

fn dsrc_img<'a>(si: &Img, sb: &'a Backing, pt: Pt) -> Image<'a> {
    let g = sb.g;
    unsafe {
        match si.kind {
            Kind::DynOwned => {
                let _z = zone::enter(zone::USER);
                let n = (g.pw * g.ph) as usize * g.px;
                // an owned image; its Vec<u8> comes from the allocator at malloc alignment
                let mut im = Image::new(g.pw, g.ph, fir_pt(pt));
                im.buffer_mut().copy_from_slice(&sb.raw_bytes()[..n]);
                im
            }
            _ => Image::from_slice_u8(g.pw, g.ph, sb.raw_bytes_mut(), fir_pt(pt)).unwrap(),
        }
    }
}

fn with_ddst_img<R>(di: &Img, db: &mut Backing, pt: Pt, f: impl FnOnce(&mut Image) -> R) -> R {
    let g = db.g;
    unsafe {
        match di.kind {
            Kind::DynOwned => {
                let n = (g.pw * g.ph) as usize * g.px;
                let mut im = {
                    let _z = zone::enter(zone::USER);
                    let mut v: Vec<u8> = Vec::with_capacity(n.max(1));
                    v.extend_from_slice(&db.raw_bytes()[..n]);
                    Image::from_vec_u8(g.pw, g.ph, v, fir_pt(pt)).unwrap()
                };
                let r = f(&mut im);
                db.raw_bytes_mut()[..n].copy_from_slice(im.buffer());
                r
            }
            _ => {
                let mut im = Image::from_slice_u8(g.pw, g.ph, db.raw_bytes_mut(), fir_pt(pt)).unwrap();
                f(&mut im)
            }
        }
    }
}

pub fn with_dyn2<R, O: DynOp2<R>>(
    si: &Img,
    sb: &Backing,
    spt: Pt,
    di: &Img,
    db: &mut Backing,
    dpt: Pt,
    op: &mut O,
) -> R {
    use DstClass as D;
    use SrcClass as S;
    let sg = sb.g;
    let dg = db.g;
    match (src_class(si.kind), dst_class(di.kind)) {
        (S::DRef, D::DImg) => {
            let s = dsrc_ref(sb, spt);
            with_ddst_img(di, db, dpt, |d| op.call(&s, d))
        }
        (S::DImg, D::DImg) => {
            let s = dsrc_img(si, sb, spt);
            with_ddst_img(di, db, dpt, |d| op.call(&s, d))
        }
        (S::DCrop, D::DImg) => {
            let p = dsrc_ref(sb, spt);
            let [l, t, w, h] = si.view_override.unwrap_or([sg.ox, sg.oy, sg.w, sg.h]);
            let s = CroppedImage::new(&p, l, t, w, h).unwrap();
            with_ddst_img(di, db, dpt, |d| op.call(&s, d))
        }
        (S::DRef, D::DCrop) => unsafe {
            let s = dsrc_ref(sb, spt);
            let mut dp = Image::from_slice_u8(dg.pw, dg.ph, db.raw_bytes_mut(), fir_pt(dpt)).unwrap();
            let mut d = CroppedImageMut::new(&mut dp, dg.ox, dg.oy, dg.w, dg.h).unwrap();
            op.call(&s, &mut d)
        },
        (S::DCrop, D::DCrop) => unsafe {
            let p = dsrc_ref(sb, spt);
            let s = CroppedImage::new(&p, sg.ox, sg.oy, sg.w, sg.h).unwrap();
            let mut dp = Image::from_slice_u8(dg.pw, dg.ph, db.raw_bytes_mut(), fir_pt(dpt)).unwrap();
            let mut d = CroppedImageMut::new(&mut dp, dg.ox, dg.oy, dg.w, dg.h).unwrap();
            op.call(&s, &mut d)
        },
        (S::DCrop2, D::DCrop2) => unsafe {
            let p = dsrc_ref(sb, spt);
            let m = CroppedImage::new(&p, sg.o2x, sg.o2y, sg.mw, sg.mh).unwrap();
            let s = CroppedImage::new(&m, sg.ox - sg.o2x, sg.oy - sg.o2y, sg.w, sg.h).unwrap();
            let mut dp = Image::from_slice_u8(dg.pw, dg.ph, db.raw_bytes_mut(), fir_pt(dpt)).unwrap();
            let mut dm = CroppedImageMut::new(&mut dp, dg.o2x, dg.o2y, dg.mw, dg.mh).unwrap();
            let mut d = CroppedImageMut::new(&mut dm, dg.ox - dg.o2x, dg.oy - dg.o2y, dg.w, dg.h).unwrap();
            op.call(&s, &mut d)
        },
        (S::DCropM, D::DImg) => unsafe {
            let mut sp = Image::from_slice_u8(sg.pw, sg.ph, sb.raw_bytes_mut(), fir_pt(spt)).unwrap();
            let s = CroppedImageMut::new(&mut sp, sg.ox, sg.oy, sg.w, sg.h).unwrap();
            with_ddst_img(di, db, dpt, |d| op.call(&s, d))
        },
        (S::DCropM, D::DCrop) => unsafe {
            let mut sp = Image::from_slice_u8(sg.pw, sg.ph, sb.raw_bytes_mut(), fir_pt(spt)).unwrap();
            let s = CroppedImageMut::new(&mut sp, sg.ox, sg.oy, sg.w, sg.h).unwrap();
            let mut dp = Image::from_slice_u8(dg.pw, dg.ph, db.raw_bytes_mut(), fir_pt(dpt)).unwrap();
            let mut d = CroppedImageMut::new(&mut dp, dg.ox, dg.oy, dg.w, dg.h).unwrap();
            op.call(&s, &mut d)
        },
        (a, b) => panic!("harness: dynamic view pair {:?}/{:?} is not compiled in", a, b),
    }
}

pub fn with_dyn1<R, O: DynOp1<R>>(di: &Img, db: &mut Backing, dpt: Pt, op: &mut O) -> R {
    use DstClass as D;
    let dg = db.g;
    match dst_class(di.kind) {
        D::DImg => with_ddst_img(di, db, dpt, |d| op.call(d)),
        D::DCrop => unsafe {
            let mut dp = Image::from_slice_u8(dg.pw, dg.ph, db.raw_bytes_mut(), fir_pt(dpt)).unwrap();
            let mut d = CroppedImageMut::new(&mut dp, dg.ox, dg.oy, dg.w, dg.h).unwrap();
            op.call(&mut d)
        },
        D::DCrop2 => unsafe {
            let mut dp = Image::from_slice_u8(dg.pw, dg.ph, db.raw_bytes_mut(), fir_pt(dpt)).unwrap();
            let mut dm = CroppedImageMut::new(&mut dp, dg.o2x, dg.o2y, dg.mw, dg.mh).unwrap();
            let mut d = CroppedImageMut::new(&mut dm, dg.ox - dg.o2x, dg.oy - dg.o2y, dg.w, dg.h).unwrap();
            op.call(&mut d)
        },
        b => panic!("harness: dynamic view {:?} is not compiled in", b),
    }
}
