//! Oracles: evaluated over the recorded results of the variations of one scenario.

use simexec::exec::{ExecResult, OpOut, Outcome};
use simexec::images::{sentinel_fill, Geo};
use simexec::scenario::*;

pub const DOCUMENTED_ERRORS: [&str; 18] = [
    "CropBoxError::PositionIsOutOfImageBoundaries",
    "CropBoxError::SizeIsOutOfImageBoundaries",
    "ResizeError::ImageError(UnsupportedPixelType)",
    "ResizeError::PixelTypesAreDifferent",
    "ResizeError::SrcCroppingError(PositionIsOutOfImageBoundaries)",
    "ResizeError::SrcCroppingError(SizeIsOutOfImageBoundaries)",
    "ResizeError::SrcCroppingError(WidthOrHeightLessThanZero)",
    "MulDivImagesError::ImageError(UnsupportedPixelType)",
    "MulDivImagesError::SizeIsDifferent",
    "MulDivImagesError::PixelTypesAreDifferent",
    "ImageError::UnsupportedPixelType",
    "MappingError::ImageError(UnsupportedPixelType)",
    "MappingError::DifferentDimensions",
    "MappingError::UnsupportedCombinationOfImageTypes",
    "CreateFilterError::InvalidSupport",
    "ImageBufferError::InvalidBufferSize",
    "ImageBufferError::InvalidBufferAlignment",
    "InvalidPixelsSize",
];

fn viol(class: &str, ci: usize, k: usize, site: impl Into<String>, detail: impl Into<String>) -> Violation {
    Violation { class: class.into(), client: ci as u32, op: k as u32, site: site.into(), detail: detail.into() }
}

fn first_diff(a: &[u8], b: &[u8]) -> Option<usize> {
    if a.len() != b.len() {
        return Some(a.len().min(b.len()));
    }
    a.iter().zip(b.iter()).position(|(x, y)| x != y)
}

fn in_rect(g: &Geo, i: usize) -> bool {
    if g.stride == 0 || g.w == 0 || g.h == 0 || i < g.off {
        return false;
    }
    let i = i - g.off;
    let p = i / g.px;
    let y = p / g.stride;
    let x = p % g.stride;
    y >= g.oy as usize && y < (g.oy + g.h) as usize && x >= g.ox as usize && x < (g.ox + g.w) as usize
}

fn describe_offset(g: &Geo, i: usize) -> String {
    if i < g.off {
        return format!("byte {} of the {}-byte prefix in front of the (deliberately misaligned) image", i, g.off);
    }
    let i = i - g.off;
    let p = i / g.px;
    let y = p / g.stride.max(1);
    let x = p % g.stride.max(1);
    format!(
        "byte {} = parent pixel ({}, {}) component byte {}; logical rect origin ({}, {}) size {}x{}, parent {}x{} stride {} tail {}",
        i,
        x,
        y,
        i % g.px,
        g.ox,
        g.oy,
        g.w,
        g.h,
        g.pw,
        g.ph,
        g.stride,
        g.tail
    )
}

fn is_real_panic(o: &Outcome) -> Option<(&str, &str)> {
    match o {
        Outcome::Panic { msg, loc, injected: false } => Some((msg, loc)),
        _ => None,
    }
}
fn is_injected(o: &Outcome) -> bool {
    matches!(o, Outcome::Panic { injected: true, .. })
}

/// O3b: job write-sets overlapped
fn overlaps(res: &ExecResult, out: &mut Vec<Violation>) {
    for (op, off, a, b) in res.overlaps.iter().take(2) {
        out.push(viol(
            "jobs-overlap",
            (*op >> 16) as usize,
            (*op & 0xffff) as usize,
            "oracle:O3b",
            format!("destination byte {} changed by job {} and job {} of phase {}", off, a & 0xfff, b & 0xfff, a >> 12),
        ));
    }
}

/// O3c: in a parallel phase every destination row is handed out mutably either to exactly
/// one job (row bands) or - column bands - to every job of the phase.
fn handout_tiling(res: &ExecResult, out: &mut Vec<Violation>) {
    use std::collections::BTreeMap;
    let log = &res.log;
    if log.handout_log.is_empty() || log.handouts_truncated {
        return;
    }
    // phase -> row -> set of jobs
    let mut m: BTreeMap<(u8, u32), BTreeMap<u32, Vec<u32>>> = BTreeMap::new();
    let mut jobs_in_phase: BTreeMap<(u8, u32), Vec<u32>> = BTreeMap::new();
    for h in log.handout_log.iter() {
        if h.job == simcore::events::NO_JOB || !h.mutable || h.image != 1 {
            continue;
        }
        let phase = h.job >> 12;
        let job = h.job & 0xfff;
        let e = m.entry((h.client, phase)).or_default().entry(h.row).or_default();
        if !e.contains(&job) {
            e.push(job);
        }
        let j = jobs_in_phase.entry((h.client, phase)).or_default();
        if !j.contains(&job) {
            j.push(job);
        }
    }
    if std::env::var_os("FIR_SIM_DUMP_HANDOUTS").is_some() {
        for h in log.handout_log.iter() {
            eprintln!("handout img={} row={} mut={} job={:x} client={}", h.image, h.row, h.mutable, h.job, h.client);
        }
        eprintln!("phase_shapes {:?}", log.phase_shapes);
    }
    for ((client, phase), rows) in m.iter() {
        let nj = jobs_in_phase[&(*client, *phase)].len();
        if nj < 2 {
            continue;
        }
        let shared = rows.values().filter(|v| v.len() > 1).count();
        if shared == 0 {
            continue; // row bands, disjoint
        }
        // column bands: every job must see every row it sees... all rows shared by all jobs
        let all = rows.values().all(|v| v.len() == nj);
        if !all {
            let (row, js) = rows.iter().find(|(_, v)| v.len() > 1 && v.len() != nj).map(|(r, v)| (*r, v.clone())).unwrap_or((0, vec![]));
            out.push(viol(
                "jobs-overlap",
                *client as usize,
                0,
                "oracle:O3c",
                format!("phase {}: destination row {} handed out mutably to jobs {:?} out of {} jobs", phase, row, js, nj),
            ));
        }
    }
}

fn outcome_mismatch(prop_class: &str, ci: usize, k: usize, a: &OpOut, b: &OpOut, what: &str, out: &mut Vec<Violation>) -> bool {
    if a.outcome.short() != b.outcome.short() {
        // a panic on one side only is reported as a panic at its site
        if let Some((msg, loc)) = is_real_panic(&a.outcome) {
            out.push(viol("panic", ci, k, loc, format!("{} ({}; the other execution: {})", msg, what, b.outcome.short())));
        } else if let Some((msg, loc)) = is_real_panic(&b.outcome) {
            out.push(viol("panic", ci, k, loc, format!("{} (in the reference execution of {}; the other: {})", msg, what, a.outcome.short())));
        } else {
            out.push(viol(prop_class, ci, k, "oracle:outcome", format!("{}: {} vs {}", what, a.outcome.short(), b.outcome.short())));
        }
        return true;
    }
    false
}

pub fn check_c08(scn: &Scenario, runs: &[ExecResult]) -> Vec<Violation> {
    let mut out = vec![];
    let (mt, st) = (&runs[0], &runs[1]);
    for (ci, c) in scn.clients.iter().enumerate() {
        for k in 0..c.ops.len() {
            let (a, b) = (&mt.outs[ci][k], &st.outs[ci][k]);
            if outcome_mismatch("outcome-differs", ci, k, a, b, "scheduled pool vs one thread", &mut out) {
                continue;
            }
            if let Some((msg, loc)) = is_real_panic(&a.outcome) {
                // panics with one thread too: not a threading matter (C03's subject) - unless
                // it comes from the band-splitting code itself, which also runs (and must
                // not panic) when the pool has a single thread
                if loc.contains("threading.rs") {
                    out.push(viol("panic", ci, k, loc, format!("{} (in the band-count / split code, for every pool size)", msg)));
                }
                continue;
            }
            if let Some(i) = first_diff(&a.dst, &b.dst) {
                let g = a.dst_geo.unwrap();
                out.push(viol(
                    "bytes-differ",
                    ci,
                    k,
                    "oracle:O1",
                    format!("pool {:?} vs one thread: {}: {} vs {}", c.ops[k].pool, describe_offset(&g, i), a.dst[i], b.dst[i]),
                ));
            }
        }
    }
    overlaps(mt, &mut out);
    handout_tiling(mt, &mut out);
    out
}

fn expect_untouched(op: &Op, o: &OpOut) -> bool {
    match (&op.kind, &o.outcome) {
        (_, Outcome::Err(_)) => true,
        (OpKind::Resize(r), Outcome::Ok) => {
            let zero_crop = match r.crop {
                Crop::Box(b) => b[2].0 == 0.0 || b[3].0 == 0.0,
                _ => false,
            };
            r.src.w == 0 || r.src.h == 0 || r.dst.w == 0 || r.dst.h == 0 || zero_crop
        }
        (OpKind::Alpha(a), Outcome::Ok) => a.dst.w == 0 || a.dst.h == 0,
        (OpKind::Map(m), Outcome::Ok) => m.dst.w == 0 || m.dst.h == 0,
        (OpKind::Convert(c), Outcome::Ok) => c.dst.w == 0 || c.dst.h == 0,
        _ => false,
    }
}

fn inplace(op: &Op) -> Option<(Pt, &Img)> {
    match &op.kind {
        OpKind::Alpha(a) if a.src.is_none() => Some((a.pt, &a.dst)),
        OpKind::Map(m) if m.src.is_none() => Some((m.dst_pt, &m.dst)),
        _ => None,
    }
}

pub fn check_c05(scn: &Scenario, runs: &[ExecResult]) -> Vec<Violation> {
    let mut out = vec![];
    let (ra, rb) = (&runs[0], &runs[1]);
    for (ci, c) in scn.clients.iter().enumerate() {
        for (k, op) in c.ops.iter().enumerate() {
            let (a, b) = (&ra.outs[ci][k], &rb.outs[ci][k]);
            let Some(g) = a.dst_geo else { continue };
            if outcome_mismatch("outcome-differs", ci, k, a, b, "sentinel A vs sentinel B execution", &mut out) {
                continue;
            }
            if is_real_panic(&a.outcome).is_some() {
                continue; // C03's subject
            }
            if let Some(i) = a.src_changed.or(b.src_changed) {
                out.push(viol("source-modified", ci, k, "oracle:O3a", format!("source backing byte {} changed", i)));
            }
            let n = a.dst.len();
            let mut sa = vec![0u8; n];
            let mut sb = vec![0u8; n];
            sentinel_fill(&mut sa, 0);
            sentinel_fill(&mut sb, 1);
            let inpl = inplace(op);
            // original content of the rectangle for in-place operations
            let orig: Option<Vec<u8>> = inpl.map(|(pt, img)| {
                simexec::images::content_bytes(pt, g.w as usize * g.h as usize, g.w as usize, img.content, img.content_seed)
            });
            let untouched = expect_untouched(op, a);
            let injected = is_injected(&a.outcome);
            let mut unwritten = 0usize;
            let mut first_unwritten = None;
            let mut stale = 0usize;
            let mut first_stale = None;
            let row_len = g.w as usize * g.px;
            for i in 0..n {
                let inside = in_rect(&g, i);
                if inside && !untouched {
                    if injected {
                        continue;
                    }
                    if inpl.is_some() {
                        if a.dst[i] != b.dst[i] {
                            stale += 1;
                            first_stale.get_or_insert(i);
                        }
                    } else if a.dst[i] != b.dst[i] {
                        if a.dst[i] == sa[i] && b.dst[i] == sb[i] {
                            unwritten += 1;
                            first_unwritten.get_or_insert(i);
                        } else {
                            stale += 1;
                            first_stale.get_or_insert(i);
                        }
                    }
                } else {
                    let (ea, eb) = if inside {
                        // untouched expected inside the rectangle too
                        match &orig {
                            Some(o) => {
                                let j = i - g.off;
                                let p = j / g.px;
                                let (x, y) = (p % g.stride - g.ox as usize, p / g.stride - g.oy as usize);
                                let v = o[y * row_len + x * g.px + j % g.px];
                                (v, v)
                            }
                            None => (sa[i], sb[i]),
                        }
                    } else {
                        (sa[i], sb[i])
                    };
                    if a.dst[i] != ea || b.dst[i] != eb {
                        let class = if inside { "touched-on-error-or-zero-size" } else { "wrote-outside" };
                        out.push(viol(
                            class,
                            ci,
                            k,
                            "oracle:O3a",
                            format!("outcome {}: {} (found {} / {}, expected sentinel {} / {})", a.outcome.short(), describe_offset(&g, i), a.dst[i], b.dst[i], ea, eb),
                        ));
                        break;
                    }
                }
            }
            if unwritten > 0 {
                let i = first_unwritten.unwrap();
                out.push(viol(
                    "unwritten",
                    ci,
                    k,
                    "oracle:O3a",
                    format!("{} of {} destination bytes never written after Ok; first: {}", unwritten, g.w as usize * g.h as usize * g.px, describe_offset(&g, i)),
                ));
            }
            if stale > 0 {
                let i = first_stale.unwrap();
                out.push(viol(
                    "stale-dependent",
                    ci,
                    k,
                    "oracle:O3a",
                    format!("{} destination bytes depend on the previous destination content; first: {}", stale, describe_offset(&g, i)),
                ));
            }
        }
    }
    overlaps(ra, &mut out);
    handout_tiling(ra, &mut out);
    out
}

pub fn check_c09(scn: &Scenario, runs: &[ExecResult]) -> Vec<Violation> {
    let mut out = vec![];
    let (long, fresh) = (&runs[0], &runs[1]);
    for (ci, c) in scn.clients.iter().enumerate() {
        for k in 0..c.ops.len() {
            let (a, b) = (&long.outs[ci][k], &fresh.outs[ci][k]);
            if a.dst_geo.is_none() {
                continue;
            }
            if is_injected(&a.outcome) || is_injected(&b.outcome) {
                continue; // the panicking operation's destination is unconstrained
            }
            if outcome_mismatch("reuse-differs", ci, k, a, b, "long-lived Resizer vs fresh Resizer", &mut out) {
                continue;
            }
            if is_real_panic(&a.outcome).is_some() {
                continue; // panics on a fresh Resizer too: C03's subject
            }
            if let Some(i) = first_diff(&a.dst, &b.dst) {
                let g = a.dst_geo.unwrap();
                out.push(viol(
                    "reuse-differs",
                    ci,
                    k,
                    "oracle:O4",
                    format!("call {} on the long-lived Resizer vs a fresh one: {}: {} vs {}", k, describe_offset(&g, i), a.dst[i], b.dst[i]),
                ));
            }
        }
    }
    out
}

fn logical_of(o: &OpOut) -> Vec<u8> {
    let g = o.dst_geo.unwrap();
    let mut v = Vec::with_capacity(g.w as usize * g.h as usize * g.px);
    for y in 0..g.h as usize {
        let start = ((g.oy as usize + y) * g.stride + g.ox as usize) * g.px + g.off;
        v.extend_from_slice(&o.dst[start..start + g.w as usize * g.px]);
    }
    v
}

pub fn check_c13(scn: &Scenario, runs: &[ExecResult]) -> Vec<Violation> {
    let mut out = vec![];
    let r = &runs[0];
    let outs = &r.outs[0];
    let base = &outs[0];
    if base.dst_geo.is_none() {
        return out;
    }
    let base_px = logical_of(base);
    for k in 1..outs.len() {
        let o = &outs[k];
        if o.dst_geo.is_none() {
            continue;
        }
        if outcome_mismatch("container-differs", 0, k, o, base, "container recipe vs contiguous baseline", &mut out) {
            continue;
        }
        if is_real_panic(&o.outcome).is_some() {
            continue;
        }
        if o.outcome != Outcome::Ok {
            continue; // an Err leaves the (container-specific) sentinel: nothing to compare
        }
        let px = logical_of(o);
        if let Some(i) = first_diff(&px, &base_px) {
            let g = o.dst_geo.unwrap();
            let row = i / (g.w as usize * g.px).max(1);
            let col = (i % (g.w as usize * g.px).max(1)) / g.px;
            let kinds = match &scn.clients[0].ops[k].kind {
                OpKind::Resize(r) => format!("{:?}->{:?}", r.src.kind, r.dst.kind),
                OpKind::Alpha(a) => format!("{:?}->{:?}", a.src.as_ref().map(|s| s.kind), a.dst.kind),
                _ => String::new(),
            };
            out.push(viol(
                "container-differs",
                0,
                k,
                "oracle:O5",
                format!("recipe {} vs baseline: logical pixel ({}, {}) byte {}: {} vs {}", kinds, col, row, i % g.px, px[i], base_px[i]),
            ));
        }
    }
    out
}

/// Σ|w| domain of a custom filter: true = inside the panic-free domain
pub fn panic_free_domain(op: &Op) -> bool {
    match &op.kind {
        OpKind::Resize(r) => {
            let f = match r.alg {
                Alg::Conv(f) | Alg::Interp(f) | Alg::Super(f, _) => f,
                Alg::Nearest => return true,
            };
            match f {
                // the probe runs the library's coefficient routine; if that itself panics
                // (debug assertion on absurd weights) the filter is far outside the domain
                Filt::Custom { .. } => {
                    std::panic::catch_unwind(std::panic::AssertUnwindSafe(|| simexec::probe::sum_abs_lt4(r))).unwrap_or(false)
                }
                _ => true,
            }
        }
        _ => true,
    }
}

pub fn check_c03(scn: &Scenario, runs: &[ExecResult]) -> Vec<Violation> {
    let mut out = vec![];
    let r = &runs[0];
    for (ci, c) in scn.clients.iter().enumerate() {
        for (k, op) in c.ops.iter().enumerate() {
            let o = &r.outs[ci][k];
            match &o.outcome {
                Outcome::Panic { msg, loc, injected: false } => {
                    if panic_free_domain(op) {
                        out.push(viol("panic", ci, k, loc.clone(), msg.clone()));
                    }
                }
                Outcome::Err(e) => {
                    if !DOCUMENTED_ERRORS.contains(&e.as_str()) {
                        out.push(viol("undocumented-error", ci, k, "oracle:O6", e.clone()));
                    }
                }
                _ => {}
            }
            if let Some((lo, hi)) = o.clip_minmax {
                if lo < 0 || hi > 1279 {
                    out.push(viol(
                        "table-index-oob",
                        ci,
                        k,
                        "src/convolution/optimisations.rs:clip",
                        format!("CLIP8_LOOKUPS indexed with values in {}..={} (table is 0..=1279)", lo, hi),
                    ));
                }
            }
        }
    }
    out
}

pub fn check(scn: &Scenario, runs: &[ExecResult]) -> Vec<Violation> {
    match scn.prop.as_str() {
        "C08" => check_c08(scn, runs),
        "C05" => check_c05(scn, runs),
        "C09" => check_c09(scn, runs),
        "C13" => check_c13(scn, runs),
        _ => check_c03(scn, runs),
    }
}
