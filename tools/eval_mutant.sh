#!/bin/bash
# eval_mutant.sh <name> <patch.diff> <props...>: run the registered checks (quick tier) against
# a scratch worktree of /repo HEAD with the patch applied, through a scratch copy of sim/.
set -u
name=$1; patch=$2; shift 2
wt=/tmp/muteval/$name/repo; sim=/tmp/muteval/$name/sim; out=/tmp/muteval/$name/out
rm -rf /tmp/muteval/$name; mkdir -p /tmp/muteval/$name $out
git -C /repo worktree prune
git -C /repo worktree add --detach $wt HEAD >/dev/null 2>&1 || exit 2
(cd $wt && git apply $patch) || { echo "PATCH DOES NOT APPLY"; git -C /repo worktree remove --force $wt; exit 1; }
rsync -a --exclude target --exclude srcshim /verif/sim/ $sim/
for p in "$@"; do
  echo "=== $name: $p"
  VERIF_REPO_SRC=$wt/src VERIF_SIM_DIR=$sim VERIF_OUT_DIR=$out VERIF_SCALE=${VERIF_SCALE:-1} /verif/check $p ${TIER:-quick} 2>&1 | grep -v "^build" | tail -8
  echo "exit=$?"
done
git -C /repo worktree remove --force $wt
rm -rf $sim/target
echo "=== done $name"
