//! Access to the read-only probes compiled into the library with `--cfg fir_verif`.

use crate::scenario::*;
use fast_image_resize as fir;

pub fn reset_clip() {
    fir::verif::reset_clip_range();
}
pub fn clip_minmax() -> Option<(i64, i64)> {
    fir::verif::clip_range()
}

/// The crop box a resize will use (None = rejected / degenerate).
fn crop_box(r: &ResizeOp) -> Option<[f64; 4]> {
    let b = match r.crop {
        Crop::None => [0.0, 0.0, r.src.w as f64, r.src.h as f64],
        Crop::Box(b) => [b[0].0, b[1].0, b[2].0, b[3].0],
        Crop::Fit(x, y) => {
            let c = fir::CropBox::fit_src_into_dst_size(r.src.w, r.src.h, r.dst.w, r.dst.h, Some((x.0, y.0)));
            [c.left, c.top, c.width, c.height]
        }
    };
    if b.iter().all(|v| v.is_finite()) && b[2] > 0.0 && b[3] > 0.0 {
        Some(b)
    } else {
        None
    }
}

/// max over all windows of both axes of Σ|w| (normalised weights), via the library's own
/// coefficient routine. None when the geometry is rejected / degenerate.
pub fn max_sum_abs(r: &ResizeOp) -> Option<f64> {
    let (filt, adaptive) = match r.alg {
        Alg::Conv(f) => (f, true),
        Alg::Interp(f) => (f, false),
        Alg::Super(f, _) => (f, true),
        Alg::Nearest => return None,
    };
    let ft = crate::exec::filter_type(filt).ok()?;
    let b = crop_box(r)?;
    if r.dst.w == 0 || r.dst.h == 0 || r.src.w == 0 || r.src.h == 0 {
        return None;
    }
    // supersampling convolves an intermediate image; its scale is <= 1.2 * multiplicity,
    // evaluate both the direct geometry and the intermediate one conservatively
    let mut geoms = vec![(r.src.w, b[0], b[0] + b[2], r.dst.w), (r.src.h, b[1], b[1] + b[3], r.dst.h)];
    if let Alg::Super(_, m) = r.alg {
        let ws = b[2] / r.dst.w as f64;
        let hs = b[3] / r.dst.h as f64;
        let factor = ws.min(hs) / m as f64;
        if factor > 1.2 {
            let tw = (b[2] / factor).round() as u32;
            let th = (b[3] / factor).round() as u32;
            geoms = vec![(tw, 0.0, tw as f64, r.dst.w), (th, 0.0, th as f64, r.dst.h)];
        }
    }
    let mut worst = 0.0f64;
    for (in_size, in0, in1, out_size) in geoms {
        if in_size == 0 || !(in1 - in0).is_finite() || (in1 - in0) / out_size as f64 > 4096.0 {
            continue;
        }
        let info = fir::verif::coefficients(in_size, in0, in1, out_size, ft, adaptive);
        for w in info.windows.iter() {
            let s: f64 = w.weights.iter().map(|v| v.abs()).sum();
            if s > worst || s.is_nan() {
                worst = if s.is_nan() { f64::INFINITY } else { s };
            }
        }
    }
    Some(worst)
}

pub fn sum_abs_lt4(r: &ResizeOp) -> bool {
    let _z = simcore::zone::enter(simcore::zone::OFF);
    match max_sum_abs(r) {
        Some(s) => s < 4.0,
        None => true,
    }
}
