//! The heavy, rarely changing half of the simulator: scenario model, user-side
//! containers, operation executor, scheduler, probes. Everything generic over pixel and
//! container types is instantiated here.

pub mod exec;
pub mod images;
pub mod probe;
pub mod scenario;
pub mod sched;

use scenario::*;
use std::sync::{Arc, Mutex};

pub fn flavour() -> &'static str {
    if cfg!(debug_assertions) {
        "dbg"
    } else {
        "opt"
    }
}

pub fn vars_for(prop: &str) -> Vec<exec::Var> {
    use exec::Var;
    match prop {
        "C08" => vec![Var { id: 0, ..Default::default() }, Var { id: 1, force_pool1: true, ..Default::default() }],
        "C05" => vec![Var { id: 0, sentinel: 0, ..Default::default() }, Var { id: 1, sentinel: 1, ..Default::default() }],
        "C09" => vec![Var { id: 0, ..Default::default() }, Var { id: 1, fresh_resizer: true, ..Default::default() }],
        _ => vec![Var { id: 0, ..Default::default() }],
    }
}

pub struct RunOutput {
    pub results: Vec<exec::ExecResult>,
    pub choices: Vec<Vec<u32>>,
    pub data: Vec<Vec<u64>>,
    pub steps: u64,
    pub context_switches: u64,
    pub max_runnable: u32,
    pub harness_error: Option<String>,
    pub deadlock: Option<String>,
}

pub fn shuttle_config() -> shuttle::Config {
    let mut c = shuttle::Config::new();
    c.stack_size = 1 << 20;
    c.failure_persistence = shuttle::FailurePersistence::None;
    c.max_steps = shuttle::MaxSteps::FailAfter(3_000_000);
    c.silence_warnings = true;
    c
}

/// Execute every variation of a scenario; each variation is one shuttle execution.
pub fn run_scenario(scn: &Arc<Scenario>) -> RunOutput {
    let vars = vars_for(&scn.prop);
    let shared = Arc::new(Mutex::new(sched::Shared::default()));
    let mut out = RunOutput {
        results: vec![],
        choices: vec![],
        data: vec![],
        steps: 0,
        context_switches: 0,
        max_runnable: 0,
        harness_error: None,
        deadlock: None,
    };
    for (vi, var) in vars.iter().enumerate() {
        let mode = match scn.sched.mode.as_str() {
            "random" => sched::Mode::Random,
            "pct" => sched::Mode::Pct { depth: scn.sched.depth.max(1) },
            "replay" => sched::Mode::Replay {
                choices: scn.sched.choices.get(vi).cloned().unwrap_or_default(),
                data: scn.sched.data.get(vi).cloned().unwrap_or_default(),
                strict: scn.sched.strict,
            },
            _ => sched::Mode::Trivial,
        };
        // C05 runs both sentinel executions under the same schedule
        let vseed = if scn.prop == "C05" { scn.sched.seed } else { scn.sched.seed ^ ((vi as u64) << 48) };
        shared.lock().unwrap().next = Some((mode, vseed));
        *exec::EXEC_SLOT.lock().unwrap() = Some((scn.clone(), *var));
        *exec::EXEC_RESULT.lock().unwrap() = None;
        let runner = shuttle::Runner::new(sched::SimScheduler::new(shared.clone()), shuttle_config());
        let r = std::panic::catch_unwind(std::panic::AssertUnwindSafe(|| runner.run(exec::execution_body)));
        simcore::zone::set(simcore::zone::OFF);
        let sh = shared.lock().unwrap();
        out.choices.push(sh.choices.clone());
        out.data.push(sh.data.clone());
        out.steps += sh.steps;
        out.context_switches += sh.context_switches;
        out.max_runnable = out.max_runnable.max(sh.max_runnable);
        if let Some(d) = &sh.diverged {
            out.harness_error = Some(format!("schedule divergence in variation {}: {}", vi, d));
        }
        drop(sh);
        match r {
            Ok(_) => match exec::EXEC_RESULT.lock().unwrap().take() {
                Some(res) => out.results.push(res),
                None => {
                    out.harness_error = Some("execution produced no result".into());
                    break;
                }
            },
            Err(_) => {
                let (msg, loc) = exec::LAST_PANIC.lock().unwrap().take().unwrap_or_default();
                let text = format!("{} @ {}", msg, loc);
                if msg.contains("deadlock") {
                    out.deadlock = Some(text);
                } else {
                    out.harness_error = Some(format!("execution aborted: {}", text));
                }
                break;
            }
        }
    }
    out
}

