#!/bin/bash
# like eval_all.sh, for the later waves (f-j) and the last reverted fix
out=${1:-/tmp/eval_rest.tsv}
: > $out
run() {
  name=$1; patch=$2; shift 2
  for p in "$@"; do
    log=$(/verif/tools/eval_mutant.sh $name $patch $p 2>&1)
    viol=$(echo "$log" | grep -c "^VIOLATION")
    runs=$(echo "$log" | grep -E "quick (opt|dbg):" | sed -E 's/.*: ([0-9]+) runs, ([0-9]+) violating runs, ([0-9]+) crashes.*/\1 runs \2 violating \3 crashes/' | tr '\n' ';')
    ok=$(echo "$log" | grep -c "^OK property")
    harness=$(echo "$log" | grep -c "HARNESS-ERROR")
    echo -e "$name\t$p\tviolation_lines=$viol\tok=$ok\tharness_error=$harness\t$runs" >> $out
  done
}
for w in f g h i j; do
  for p in C03 C05 C08 C09 C13; do
    run $p$w /verif/seeded/$p$w/patch.diff $p
  done
done
run revert-281bf62 /verif/seeded/reverts/281bf62.diff C03
echo done >> $out
