//! fir-sim: deterministic simulator for fast_image_resize.
//!
//!   fir-sim run --prop C08 --tier quick --seed S --start I --count N --out FILE
//!   fir-sim replay FILE [--out FILE]
//!   fir-sim gen --prop C08 --tier quick --seed S --index I
//!   fir-sim info

mod gen;
mod oracle;
mod stats;

use simexec::scenario::*;
use simexec::{exec, flavour, run_scenario, RunOutput};
use std::io::Write;
use std::sync::Arc;

#[global_allocator]
static ALLOC: simcore::arena::SimAlloc = simcore::arena::SimAlloc;

fn arg<'a>(args: &'a [String], name: &str) -> Option<&'a str> {
    args.iter().position(|a| a == name).and_then(|i| args.get(i + 1)).map(|s| s.as_str())
}

fn set_rlimit() {
    unsafe {
        let lim = libc::rlimit { rlim_cur: 6 << 30, rlim_max: 6 << 30 };
        libc::setrlimit(libc::RLIMIT_AS, &lim);
        let core = libc::rlimit { rlim_cur: 0, rlim_max: 0 };
        libc::setrlimit(libc::RLIMIT_CORE, &core);
    }
}

fn knobs(prop: &str, tier: &str) -> gen::Knobs {
    let p: &'static str = match prop {
        "C03" => "C03",
        "C05" => "C05",
        "C08" => "C08",
        "C09" => "C09",
        "C13" => "C13",
        _ => {
            eprintln!("unknown property {}", prop);
            std::process::exit(2)
        }
    };
    gen::Knobs { prop: p, thorough: tier == "thorough", backends: exec::host_backends() }
}

fn violations_of(scn: &Arc<Scenario>, ro: &RunOutput) -> Vec<Violation> {
    let mut v = vec![];
    if let Some(d) = &ro.deadlock {
        v.push(Violation { class: "deadlock".into(), client: 0, op: 0, site: "shuttle".into(), detail: d.clone() });
        return v;
    }
    if ro.harness_error.is_some() {
        return v;
    }
    oracle::check(scn, &ro.results)
}

fn main() {
    simcore::arena::init();
    set_rlimit();
    exec::install_panic_hook();
    let args: Vec<String> = std::env::args().collect();
    let cmd = args.get(1).map(|s| s.as_str()).unwrap_or("");
    match cmd {
        "info" => {
            println!(
                "{}",
                serde_json::json!({"flavour": flavour(), "backends": exec::host_backends().iter().map(|b| format!("{:?}", b)).collect::<Vec<_>>()})
            );
        }
        "gen" => {
            let prop = arg(&args, "--prop").unwrap_or("C08");
            let tier = arg(&args, "--tier").unwrap_or("quick");
            let seed: u64 = arg(&args, "--seed").and_then(|s| s.parse().ok()).unwrap_or(1);
            let index: u64 = arg(&args, "--index").and_then(|s| s.parse().ok()).unwrap_or(0);
            let k = knobs(prop, tier);
            let scn = gen::generate(&k, simcore::prng::derive(seed, index));
            println!("{}", serde_json::to_string_pretty(&scn).unwrap());
        }
        "run" => {
            let prop = arg(&args, "--prop").unwrap_or("C08").to_string();
            let tier = arg(&args, "--tier").unwrap_or("quick").to_string();
            let seed: u64 = arg(&args, "--seed").and_then(|s| s.parse().ok()).unwrap_or(1);
            let start: u64 = arg(&args, "--start").and_then(|s| s.parse().ok()).unwrap_or(0);
            let count: u64 = arg(&args, "--count").and_then(|s| s.parse().ok()).unwrap_or(100);
            let stride: u64 = arg(&args, "--stride").and_then(|s| s.parse().ok()).unwrap_or(1);
            let out_path = arg(&args, "--out").unwrap_or("/dev/stdout").to_string();
            let hash_only = args.iter().any(|a| a == "--log-hashes");
            let k = knobs(&prop, &tier);
            let mut out = std::fs::OpenOptions::new().create(true).append(true).open(&out_path).expect("open out");
            let mut st = stats::Stats::new(&prop, &tier);
            let t0 = std::time::Instant::now();
            let mut flushed_s = 0.0f64;
            let mut i = start;
            let mut done = 0u64;
            while done < count {
                let run_seed = simcore::prng::derive(seed, i);
                simcore::arena::CTX_RUN.store(i, std::sync::atomic::Ordering::Relaxed);
                simcore::arena::CTX_SEED.store(run_seed, std::sync::atomic::Ordering::Relaxed);
                let scn = Arc::new(gen::generate(&k, run_seed));
                let ro = run_scenario(&scn);
                if let Some(e) = &ro.harness_error {
                    writeln!(out, "{}", serde_json::json!({"type": "harness-error", "run": i, "seed": run_seed, "error": e})).unwrap();
                }
                let viols = violations_of(&scn, &ro);
                st.account(&scn, &ro, &viols);
                if hash_only {
                    writeln!(out, "{}", serde_json::json!({"type": "hash", "run": i, "h": format!("{:016x}", stats::run_hash(&scn, &ro))})).unwrap();
                }
                if !viols.is_empty() {
                    let mut s2 = (*scn).clone();
                    s2.sched.choices = ro.choices.clone();
                    s2.sched.data = ro.data.clone();
                    writeln!(
                        out,
                        "{}",
                        serde_json::json!({"type": "violation", "run": i, "seed": run_seed, "flavour": flavour(), "violations": viols, "scenario": s2})
                    )
                    .unwrap();
                }
                // stats are flushed in chunks so that a crash loses little
                if (done + 1) % 256 == 0 {
                    st.wall_s = t0.elapsed().as_secs_f64() - flushed_s;
                    flushed_s += st.wall_s;
                    writeln!(out, "{}", serde_json::json!({"type": "stats", "stats": st.to_json()})).unwrap();
                    st = stats::Stats::new(&prop, &tier);
                    simcore::arena::clear_stats();
                }
                i += stride;
                done += 1;
            }
            st.wall_s = t0.elapsed().as_secs_f64() - flushed_s;
            writeln!(out, "{}", serde_json::json!({"type": "stats", "stats": st.to_json()})).unwrap();
            writeln!(out, "{}", serde_json::json!({"type": "done", "next": i})).unwrap();
        }
        "replay" => {
            let path = args.get(2).expect("replay FILE");
            let text = std::fs::read_to_string(path).expect("read replay file");
            let v: serde_json::Value = serde_json::from_str(&text).expect("parse replay file");
            let scn_v = if v.get("scenario").is_some() { v["scenario"].clone() } else { v.clone() };
            let scn: Scenario = serde_json::from_value(scn_v).expect("scenario");
            let scn = Arc::new(scn);
            simcore::arena::CTX_SEED.store(scn.run_seed, std::sync::atomic::Ordering::Relaxed);
            let ro = run_scenario(&scn);
            let viols = violations_of(&scn, &ro);
            let mut s2 = (*scn).clone();
            s2.sched.choices = ro.choices.clone();
            s2.sched.data = ro.data.clone();
            let outcomes: Vec<Vec<Vec<String>>> =
                ro.results.iter().map(|r| r.outs.iter().map(|c| c.iter().map(|o| o.outcome.short()).collect()).collect()).collect();
            let res = serde_json::json!({
                "type": "replay",
                "flavour": flavour(),
                "harness_error": ro.harness_error,
                "violations": viols,
                "outcomes": outcomes,
                "steps": ro.steps,
                "hash": format!("{:016x}", stats::run_hash(&scn, &ro)),
                "scenario": s2,
            });
            if let Some(p) = arg(&args, "--out") {
                std::fs::write(p, serde_json::to_string_pretty(&res).unwrap()).unwrap();
            } else {
                println!("{}", serde_json::to_string(&res).unwrap());
            }
            if ro.harness_error.is_some() {
                std::process::exit(2);
            }
            std::process::exit(if viols.is_empty() { 0 } else { 1 });
        }
        _ => {
            eprintln!("usage: fir-sim run|replay|gen|info ...");
            std::process::exit(2);
        }
    }
}
