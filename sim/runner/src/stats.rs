//! Per-shard coverage accounting; merged by the driver into evidence/<id>.json.

use simexec::exec::Outcome;
use simexec::scenario::*;
use simexec::RunOutput;
use std::collections::{BTreeMap, BTreeSet};

fn fnv(h: &mut u64, bytes: &[u8]) {
    for &b in bytes {
        *h ^= b as u64;
        *h = h.wrapping_mul(0x100_0000_01B3);
    }
}

/// Hash of everything observable about a run (determinism self-test).
pub fn run_hash(scn: &Scenario, ro: &RunOutput) -> u64 {
    let mut h: u64 = 0xcbf2_9ce4_8422_2325;
    fnv(&mut h, serde_json::to_string(scn).unwrap().as_bytes());
    for (vi, r) in ro.results.iter().enumerate() {
        fnv(&mut h, &r.log.sig.to_le_bytes());
        fnv(&mut h, &r.log.jobs.to_le_bytes());
        fnv(&mut h, &r.log.handouts.to_le_bytes());
        for c in r.outs.iter() {
            for o in c.iter() {
                fnv(&mut h, o.outcome.short().as_bytes());
                fnv(&mut h, &o.dst);
            }
        }
        for ch in ro.choices.get(vi).into_iter() {
            for c in ch {
                fnv(&mut h, &c.to_le_bytes());
            }
        }
        for d in ro.data.get(vi).into_iter() {
            for c in d {
                fnv(&mut h, &c.to_le_bytes());
            }
        }
    }
    h
}

pub struct Stats {
    pub prop: String,
    pub tier: String,
    pub runs: u64,
    pub nontrivial: u64,
    pub c: BTreeMap<String, u64>,
    pub sigs: BTreeSet<u64>,
    pub interleavings: BTreeSet<u64>,
    pub samples: Vec<serde_json::Value>,
    pub violations: u64,
    pub wall_s: f64,
}

fn alg_name(a: &Alg) -> String {
    let f = |f: &Filt| match f {
        Filt::Custom { family, .. } => format!("Custom{}", family),
        o => format!("{:?}", o),
    };
    match a {
        Alg::Nearest => "Nearest".into(),
        Alg::Conv(x) => format!("Convolution({})", f(x)),
        Alg::Interp(x) => format!("Interpolation({})", f(x)),
        Alg::Super(x, m) => format!("SuperSampling({},{})", f(x), m),
    }
}

impl Stats {
    pub fn new(prop: &str, tier: &str) -> Self {
        Stats {
            prop: prop.into(),
            tier: tier.into(),
            runs: 0,
            nontrivial: 0,
            c: BTreeMap::new(),
            sigs: BTreeSet::new(),
            interleavings: BTreeSet::new(),
            samples: vec![],
            violations: 0,
            wall_s: 0.0,
        }
    }
    fn inc(&mut self, k: impl Into<String>, n: u64) {
        *self.c.entry(k.into()).or_insert(0) += n;
    }

    pub fn account(&mut self, scn: &Scenario, ro: &RunOutput, viols: &[Violation]) {
        self.runs += 1;
        self.violations += viols.len() as u64;
        self.inc("sched_steps", ro.steps);
        self.inc("context_switches", ro.context_switches);
        self.inc(format!("sched_mode:{}", scn.sched.mode), 1);
        if ro.harness_error.is_some() {
            self.inc("harness_errors", 1);
        }
        for cl in scn.classes.iter() {
            self.inc(format!("class:{}", cl), 1);
        }
        if scn.clients.len() > 1 {
            self.inc("fault:F7-several-clients.fired", 1);
        }
        if scn.job_snapshots {
            self.inc("oracle:O3b-job-snapshots.runs", 1);
        }
        let mut shape_sig: u64 = 0xcbf2_9ce4_8422_2325;
        let mut real_ops = 0u64;
        let mut ok_conv_resizes = 0u64;
        let mut ok_nonempty = 0u64;
        let r0 = ro.results.first();
        for (ci, cl) in scn.clients.iter().enumerate() {
            for (k, op) in cl.ops.iter().enumerate() {
                self.inc("ops", 1);
                let outcome = r0.and_then(|r| r.outs.get(ci)).and_then(|c| c.get(k)).map(|o| &o.outcome);
                match outcome {
                    Some(Outcome::Ok) => self.inc("outcome:Ok", 1),
                    Some(Outcome::Err(e)) => {
                        self.inc("outcome:Err", 1);
                        self.inc(format!("err:{}", e), 1);
                    }
                    Some(Outcome::Panic { injected: true, .. }) => {
                        self.inc("outcome:Panic(injected)", 1);
                        self.inc("fault:F4-panic-in-user-container.fired", 1);
                    }
                    Some(Outcome::Panic { .. }) => self.inc("outcome:Panic", 1),
                    Some(Outcome::State) => self.inc("outcome:State", 1),
                    None => {}
                }
                if op.pool.len() > 1 {
                    self.inc("fault:F2-num-threads-flap.configured", 1);
                }
                for p in op.pool.iter() {
                    self.inc(format!("pool:{}", p), 1);
                }
                self.inc(format!("backend:{:?}", op.backend), 1);
                let mut imgs: Vec<(&Img, bool)> = vec![];
                match &op.kind {
                    OpKind::Resize(r) => {
                        real_ops += 1;
                        self.inc("op:resize", 1);
                        self.inc(format!("pt:{:?}", r.pt), 1);
                        self.inc(format!("alg:{}", alg_name(&r.alg)), 1);
                        imgs.push((&r.src, false));
                        imgs.push((&r.dst, true));
                        fnv(&mut shape_sig, format!("{:?}{:?}{:?}{:?}{:?}", r.pt, r.alg, r.src.kind, r.dst.kind, op.backend).as_bytes());
                        if matches!(outcome, Some(Outcome::Ok)) {
                            if !matches!(r.alg, Alg::Nearest) {
                                ok_conv_resizes += 1;
                            }
                            if r.dst.w > 0 && r.dst.h > 0 {
                                ok_nonempty += 1;
                            }
                        }
                        if r.shared_src && scn.clients.len() > 1 {
                            self.inc("fault:F7-shared-source-image.fired", 1);
                        }
                        if r.src.panic_at != 0 || r.dst.panic_at != 0 {
                            self.inc("fault:F4-panic-in-user-container.configured", 1);
                        }
                    }
                    OpKind::Alpha(a) => {
                        real_ops += 1;
                        self.inc(if a.src.is_some() { "op:alpha-two-images" } else { "op:alpha-inplace" }, 1);
                        self.inc(format!("pt:{:?}", a.pt), 1);
                        if let Some(s) = &a.src {
                            imgs.push((s, false));
                        }
                        imgs.push((&a.dst, true));
                        fnv(&mut shape_sig, format!("A{:?}{:?}{}", a.pt, a.dst.kind, a.divide).as_bytes());
                        if matches!(outcome, Some(Outcome::Ok)) && a.dst.w > 0 && a.dst.h > 0 {
                            ok_nonempty += 1;
                        }
                    }
                    OpKind::Map(m) => {
                        real_ops += 1;
                        self.inc("op:map", 1);
                        if let Some(s) = &m.src {
                            imgs.push((s, false));
                        }
                        imgs.push((&m.dst, true));
                        fnv(&mut shape_sig, format!("M{:?}{:?}", m.pt, m.dst_pt).as_bytes());
                        if matches!(outcome, Some(Outcome::Ok)) {
                            ok_nonempty += 1;
                        }
                    }
                    OpKind::Convert(c) => {
                        real_ops += 1;
                        self.inc("op:convert", 1);
                        imgs.push((&c.src, false));
                        imgs.push((&c.dst, true));
                        fnv(&mut shape_sig, format!("C{:?}{:?}", c.pt, c.dst_pt).as_bytes());
                        if matches!(outcome, Some(Outcome::Ok)) {
                            ok_nonempty += 1;
                        }
                    }
                    OpKind::Reset => self.inc("op:reset_internal_buffers", 1),
                    OpKind::CloneResizer { .. } => self.inc("op:clone", 1),
                    OpKind::SwitchResizer { .. } => self.inc("op:switch-resizer", 1),
                }
                for (im, is_dst) in imgs {
                    self.inc(format!("{}:{:?}", if is_dst { "dst-kind" } else { "src-kind" }, im.kind), 1);
                    if im.tail > 0 && im.kind.allows_tail() {
                        self.inc("probe:oversized-buffer", 1);
                    }
                    if im.place == 2 {
                        self.inc("fault:F5-user-buffer-flush-start", 1);
                    } else {
                        self.inc("fault:F5-user-buffer-flush-end", 1);
                    }
                    if matches!(im.kind, Kind::SimNoSplit) {
                        self.inc("fault:F3-declined-split.configured", 1);
                    }
                    if im.kind.is_sim() && im.stride_extra > 0 {
                        self.inc("fault:F3-strided-user-container", 1);
                    }
                    if im.kind.is_harness() && im.yield_rows {
                        self.inc("fault:F1-row-granular-preemption.configured", 1);
                    }
                }
            }
        }
        let _ = real_ops;
        let mut nontrivial = false;
        let mut il: u64 = 0;
        if let Some(r) = r0 {
            let l = &r.log;
            self.inc("phases", l.phases as u64);
            self.inc("jobs", l.jobs as u64);
            self.inc("multi_job_phases", l.multi_job_phases as u64);
            self.inc("handouts", l.handouts);
            self.inc("probe:workers>jobs", l.workers_gt_jobs as u64);
            self.inc("probe:job-panics", l.job_panics as u64);
            self.inc("num_threads_queries", l.num_threads_queries as u64);
            let mj = self.c.get("max_jobs_in_phase").copied().unwrap_or(0);
            if l.max_jobs_in_phase as u64 > mj {
                self.c.insert("max_jobs_in_phase".into(), l.max_jobs_in_phase as u64);
            }
            for (_, jobs, _) in l.phase_shapes.iter() {
                let b = match *jobs {
                    0 => "0",
                    1 => "1",
                    2 => "2",
                    3..=4 => "3-4",
                    5..=8 => "5-8",
                    9..=16 => "9-16",
                    17..=32 => "17-32",
                    _ => ">32",
                };
                self.inc(format!("band-count:{}", b), 1);
            }
            il = l.sig;
            match scn.prop.as_str() {
                "C08" | "C05" | "C13" => nontrivial = l.multi_job_phases > 0,
                "C09" => nontrivial = ok_conv_resizes >= 2,
                _ => nontrivial = ok_nonempty >= 1,
            }
            if l.multi_job_phases > 0 {
                self.inc("fault:F1-schedule.fired", 1);
                self.interleavings.insert(l.sig);
            }
        }
        if nontrivial {
            self.nontrivial += 1;
            let mut s = shape_sig;
            fnv(&mut s, &il.to_le_bytes());
            self.sigs.insert(s);
        }
        if self.samples.len() < 2 && nontrivial {
            let mut s2 = scn.clone();
            s2.sched.choices = ro.choices.clone();
            s2.sched.data = vec![];
            // keep samples small
            for c in s2.sched.choices.iter_mut() {
                c.truncate(64);
            }
            let outcomes: Vec<Vec<String>> = r0.map(|r| r.outs.iter().map(|c| c.iter().map(|o| o.outcome.short()).collect()).collect()).unwrap_or_default();
            let job_order: Vec<(u32, u32)> = r0.map(|r| r.log.job_order.iter().take(48).cloned().collect()).unwrap_or_default();
            self.samples.push(serde_json::json!({"scenario": s2, "outcomes": outcomes, "job_order_phase_job": job_order}));
        }
    }

    pub fn to_json(&self) -> serde_json::Value {
        let a = simcore::arena::stats();
        serde_json::json!({
            "prop": self.prop,
            "tier": self.tier,
            "flavour": simexec::flavour(),
            "runs": self.runs,
            "nontrivial": self.nontrivial,
            "violations": self.violations,
            "wall_s": self.wall_s,
            "counters": self.c,
            "sigs": self.sigs.iter().map(|s| format!("{:016x}", s)).collect::<Vec<_>>(),
            "interleavings": self.interleavings.iter().map(|s| format!("{:016x}", s)).collect::<Vec<_>>(),
            "samples": self.samples,
            "arena": {
                "user_allocs": a.user_allocs,
                "library_allocs": a.lib_allocs,
                "flush_end": a.flush_end,
                "flush_start": a.flush_start,
                "misaligned_scratch": a.misaligned,
                "misalign_residues": a.misalign_hist.to_vec(),
                "realloc_moves": a.realloc_moves,
                "fallback_to_system": a.fallback_system,
                "stale_free": a.stale_free,
                "max_live_blocks": a.max_live,
            },
        })
    }
}
