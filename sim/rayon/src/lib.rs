//! Stand-in for the `rayon` crate, executed on shuttle tasks under the simulator's
//! scheduler. Only the API subset `fast_image_resize` uses (plus a little slack).
//!
//! Semantics (an over-approximation of rayon's contract): every item of a parallel
//! iterator is an independent job; `for_each` blocks the caller until all jobs are done;
//! any of the pool's workers may take any pending job at any time, in any order (which
//! job a free worker takes is drawn from the scheduler's data stream, so it is recorded
//! and replayed with the schedule); a panic in a job is caught in the worker and
//! re-raised in the caller once the phase is over.

use simcore::{events, zone};
use std::any::Any;
use std::panic::{catch_unwind, resume_unwind, AssertUnwindSafe};

pub mod sim {
    //! Controls of the simulated pool (task-local: every client task owns its pool
    //! description, like `ThreadPool::install` in real rayon).
    use std::cell::RefCell;

    #[derive(Clone, Debug, Default)]
    pub struct PoolCfg {
        /// values returned by consecutive `current_num_threads()` calls; the last one
        /// repeats. Empty = 1.
        pub sizes: Vec<u32>,
        pub pos: usize,
        pub last: u32,
    }

    shuttle::thread_local! {
        pub(crate) static POOL: RefCell<PoolCfg> = RefCell::new(PoolCfg::default());
    }

    /// Set the pool of the calling task.
    pub fn set_pool(sizes: &[u32]) {
        let _z = simcore::zone::enter(simcore::zone::OFF);
        POOL.with(|p| {
            let mut p = p.borrow_mut();
            p.sizes = sizes.to_vec();
            p.pos = 0;
            p.last = sizes.first().copied().unwrap_or(1).max(1);
        })
    }
}

pub fn current_num_threads() -> usize {
    events::note_num_threads_query();
    sim::POOL.with(|p| {
        let mut p = p.borrow_mut();
        let v = if p.sizes.is_empty() {
            1
        } else {
            let i = p.pos.min(p.sizes.len() - 1);
            p.pos += 1;
            p.sizes[i]
        };
        p.last = v.max(1);
        p.last as usize
    })
}

fn pool_workers() -> u32 {
    sim::POOL.with(|p| p.borrow().last.max(1))
}

fn run_jobs<T: Send, F: Fn(T) + Sync + Send>(items: Vec<T>, f: F) {
    let ctx = events::save_ctx();
    zone::set(zone::OFF);
    let n_jobs = items.len() as u32;
    let pool = pool_workers();
    let phase = events::phase_begin(n_jobs, pool);
    let mut first_panic: Option<Box<dyn Any + Send>> = None;
    if n_jobs > 0 {
        let workers = pool.min(n_jobs).max(1);
        let queue: shuttle::sync::Mutex<Vec<(u32, T)>> =
            shuttle::sync::Mutex::new(items.into_iter().enumerate().map(|(i, t)| (i as u32, t)).collect());
        let panic_slot: shuttle::sync::Mutex<Option<Box<dyn Any + Send>>> = shuttle::sync::Mutex::new(None);
        let client = ctx.client;
        let fr = &f;
        let qr = &queue;
        let pr = &panic_slot;
        shuttle::thread::scope(|s| {
            for _w in 0..workers {
                s.spawn(move || {
                    events::set_client(client);
                    loop {
                        let item = {
                            let mut q = qr.lock().unwrap();
                            // a lock is a scheduling point: whoever ran meanwhile left its
                            // own context behind
                            events::restore_ctx(events::TaskCtx { zone: zone::OFF, job: events::NO_JOB, client });
                            if q.is_empty() {
                                None
                            } else {
                                use shuttle::rand::Rng;
                                let k = (shuttle::rand::thread_rng().gen::<u64>() % q.len() as u64) as usize;
                                Some(q.remove(k))
                            }
                        };
                        // lock and unlock are scheduling points: whoever ran meanwhile left
                        // its own context behind
                        events::restore_ctx(events::TaskCtx { zone: zone::OFF, job: events::NO_JOB, client });
                        let Some((idx, it)) = item else { break };
                        events::job_begin(phase, idx);
                        zone::set(zone::LIBRARY);
                        let r = catch_unwind(AssertUnwindSafe(|| fr(it)));
                        zone::set(zone::OFF);
                        events::job_end(phase, idx, r.is_err());
                        if let Err(e) = r {
                            {
                                let mut p = pr.lock().unwrap();
                                zone::set(zone::OFF);
                                if p.is_none() {
                                    *p = Some(e);
                                }
                            }
                            events::restore_ctx(events::TaskCtx { zone: zone::OFF, job: events::NO_JOB, client });
                        }
                    }
                });
            }
        });
        first_panic = panic_slot.lock().unwrap().take();
        zone::set(zone::OFF);
    }
    events::restore_ctx(ctx);
    if let Some(e) = first_panic {
        resume_unwind(e);
    }
}

pub mod iter {
    use super::run_jobs;

    pub trait ParallelIterator: Sized + Send {
        type Item: Send;
        #[doc(hidden)]
        fn into_items(self) -> Vec<Self::Item>;

        fn for_each<F>(self, f: F)
        where
            F: Fn(Self::Item) + Sync + Send,
        {
            run_jobs(self.into_items(), f)
        }

        fn map<R: Send, F>(self, f: F) -> Map<Self, F>
        where
            F: Fn(Self::Item) -> R + Sync + Send,
        {
            Map { base: self, f }
        }
    }

    pub trait IndexedParallelIterator: ParallelIterator {
        fn zip<Z>(self, other: Z) -> Zip<Self, Z::Iter>
        where
            Z: IntoParallelIterator,
            Z::Iter: IndexedParallelIterator,
        {
            Zip { a: self, b: other.into_par_iter() }
        }
        fn enumerate(self) -> Enumerate<Self> {
            Enumerate { base: self }
        }
    }

    pub trait IntoParallelIterator {
        type Iter: ParallelIterator<Item = Self::Item>;
        type Item: Send;
        fn into_par_iter(self) -> Self::Iter;
    }

    impl<T: ParallelIterator> IntoParallelIterator for T {
        type Iter = T;
        type Item = T::Item;
        fn into_par_iter(self) -> T {
            self
        }
    }

    pub struct VecIter<T: Send> {
        v: Vec<T>,
    }
    impl<T: Send> IntoParallelIterator for Vec<T> {
        type Iter = VecIter<T>;
        type Item = T;
        fn into_par_iter(self) -> VecIter<T> {
            VecIter { v: self }
        }
    }
    impl<T: Send> ParallelIterator for VecIter<T> {
        type Item = T;
        fn into_items(self) -> Vec<T> {
            self.v
        }
    }
    impl<T: Send> IndexedParallelIterator for VecIter<T> {}

    pub struct Zip<A, B> {
        a: A,
        b: B,
    }
    impl<A: IndexedParallelIterator, B: IndexedParallelIterator> ParallelIterator for Zip<A, B> {
        type Item = (A::Item, B::Item);
        fn into_items(self) -> Vec<Self::Item> {
            self.a.into_items().into_iter().zip(self.b.into_items()).collect()
        }
    }
    impl<A: IndexedParallelIterator, B: IndexedParallelIterator> IndexedParallelIterator for Zip<A, B> {}

    pub struct Enumerate<A> {
        base: A,
    }
    impl<A: IndexedParallelIterator> ParallelIterator for Enumerate<A> {
        type Item = (usize, A::Item);
        fn into_items(self) -> Vec<Self::Item> {
            self.base.into_items().into_iter().enumerate().collect()
        }
    }
    impl<A: IndexedParallelIterator> IndexedParallelIterator for Enumerate<A> {}

    pub struct Map<A, F> {
        base: A,
        f: F,
    }
    // `map` is applied inside the job, like rayon does.
    impl<A: ParallelIterator, R: Send, F: Fn(A::Item) -> R + Sync + Send> Map<A, F> {
        pub fn for_each<G>(self, g: G)
        where
            G: Fn(R) + Sync + Send,
        {
            let f = self.f;
            run_jobs(self.base.into_items(), move |it| g(f(it)))
        }
    }
}

pub mod prelude {
    pub use crate::iter::{IndexedParallelIterator, IntoParallelIterator, ParallelIterator};
}

/// `rayon::join`: two jobs of one phase.
pub fn join<A, B, RA, RB>(a: A, b: B) -> (RA, RB)
where
    A: FnOnce() -> RA + Send,
    B: FnOnce() -> RB + Send,
    RA: Send,
    RB: Send,
{
    enum Job<A, B> {
        A(A),
        B(B),
    }
    let ra: std::sync::Mutex<Option<RA>> = std::sync::Mutex::new(None);
    let rb: std::sync::Mutex<Option<RB>> = std::sync::Mutex::new(None);
    run_jobs(vec![Job::A(a), Job::B(b)], |j| match j {
        Job::A(a) => *ra.lock().unwrap() = Some(a()),
        Job::B(b) => *rb.lock().unwrap() = Some(b()),
    });
    let x = ra.lock().unwrap().take().unwrap();
    let y = rb.lock().unwrap().take().unwrap();
    (x, y)
}
