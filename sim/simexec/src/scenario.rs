//! The explicit description of one simulated run. A scenario file alone determines
//! everything a run does (given the code); the run seed is kept only to show its origin.

use serde::{Deserialize, Serialize};

/// f64 carried as a string so that NaN / inf / every ulp survive JSON.
#[derive(Clone, Copy, Debug, PartialEq)]
pub struct F(pub f64);

impl Serialize for F {
    fn serialize<S: serde::Serializer>(&self, s: S) -> Result<S::Ok, S::Error> {
        let v = self.0;
        let t = if v.is_nan() {
            "nan".to_string()
        } else if v == f64::INFINITY {
            "inf".to_string()
        } else if v == f64::NEG_INFINITY {
            "-inf".to_string()
        } else {
            format!("{:?}", v)
        };
        s.serialize_str(&t)
    }
}
impl<'de> Deserialize<'de> for F {
    fn deserialize<D: serde::Deserializer<'de>>(d: D) -> Result<Self, D::Error> {
        let t = String::deserialize(d)?;
        let v = match t.as_str() {
            "nan" => f64::NAN,
            "inf" => f64::INFINITY,
            "-inf" => f64::NEG_INFINITY,
            o => o.parse::<f64>().map_err(serde::de::Error::custom)?,
        };
        Ok(F(v))
    }
}

#[derive(Clone, Copy, Debug, PartialEq, Eq, Serialize, Deserialize, PartialOrd, Ord, Hash)]
pub enum Pt {
    U8,
    U8x2,
    U8x3,
    U8x4,
    U16,
    U16x2,
    U16x3,
    U16x4,
    I32,
    F32,
    F32x2,
    F32x3,
    F32x4,
}

pub const ALL_PT: [Pt; 13] = [
    Pt::U8,
    Pt::U8x2,
    Pt::U8x3,
    Pt::U8x4,
    Pt::U16,
    Pt::U16x2,
    Pt::U16x3,
    Pt::U16x4,
    Pt::I32,
    Pt::F32,
    Pt::F32x2,
    Pt::F32x3,
    Pt::F32x4,
];
pub const ALPHA_PT: [Pt; 6] = [Pt::U8x2, Pt::U8x4, Pt::U16x2, Pt::U16x4, Pt::F32x2, Pt::F32x4];

impl Pt {
    pub fn size(self) -> usize {
        match self {
            Pt::U8 => 1,
            Pt::U8x2 => 2,
            Pt::U8x3 => 3,
            Pt::U8x4 => 4,
            Pt::U16 => 2,
            Pt::U16x2 => 4,
            Pt::U16x3 => 6,
            Pt::U16x4 => 8,
            Pt::I32 => 4,
            Pt::F32 => 4,
            Pt::F32x2 => 8,
            Pt::F32x3 => 12,
            Pt::F32x4 => 16,
        }
    }
    pub fn align(self) -> usize {
        match self {
            Pt::U8 | Pt::U8x2 | Pt::U8x3 | Pt::U8x4 => 1,
            Pt::U16 | Pt::U16x2 | Pt::U16x3 | Pt::U16x4 => 2,
            _ => 4,
        }
    }
    pub fn comps(self) -> usize {
        match self {
            Pt::U8 | Pt::U16 | Pt::I32 | Pt::F32 => 1,
            Pt::U8x2 | Pt::U16x2 | Pt::F32x2 => 2,
            Pt::U8x3 | Pt::U16x3 | Pt::F32x3 => 3,
            _ => 4,
        }
    }
    /// 0 = u8, 1 = u16, 2 = i32, 3 = f32
    pub fn comp_kind(self) -> u8 {
        match self {
            Pt::U8 | Pt::U8x2 | Pt::U8x3 | Pt::U8x4 => 0,
            Pt::U16 | Pt::U16x2 | Pt::U16x3 | Pt::U16x4 => 1,
            Pt::I32 => 2,
            _ => 3,
        }
    }
    pub fn has_alpha(self) -> bool {
        ALPHA_PT.contains(&self)
    }
    pub fn with_comp_kind(self, k: u8) -> Option<Pt> {
        let c = self.comps();
        Some(match (k, c) {
            (0, 1) => Pt::U8,
            (0, 2) => Pt::U8x2,
            (0, 3) => Pt::U8x3,
            (0, 4) => Pt::U8x4,
            (1, 1) => Pt::U16,
            (1, 2) => Pt::U16x2,
            (1, 3) => Pt::U16x3,
            (1, 4) => Pt::U16x4,
            (2, 1) => Pt::I32,
            (3, 1) => Pt::F32,
            (3, 2) => Pt::F32x2,
            (3, 3) => Pt::F32x3,
            (3, 4) => Pt::F32x4,
            _ => return None,
        })
    }
}

#[derive(Clone, Copy, Debug, PartialEq, Eq, Serialize, Deserialize, PartialOrd, Ord, Hash)]
pub enum Backend {
    None,
    Sse4_1,
    Avx2,
}

#[derive(Clone, Copy, Debug, PartialEq, Serialize, Deserialize)]
pub enum Filt {
    Box,
    Bilinear,
    Hamming,
    CatmullRom,
    Mitchell,
    Gaussian,
    Lanczos3,
    /// custom kernel number `family` with lobe gain `gain` and support `support`
    Custom { family: u8, gain: F, support: F },
}

#[derive(Clone, Copy, Debug, PartialEq, Serialize, Deserialize)]
pub enum Alg {
    Nearest,
    Conv(Filt),
    Interp(Filt),
    Super(Filt, u8),
}

#[derive(Clone, Copy, Debug, PartialEq, Serialize, Deserialize)]
pub enum Crop {
    None,
    Box([F; 4]),
    Fit(F, F),
}

/// Container kinds. Source side uses the immutable flavours, destination side the
/// mutable ones; the names say which library type receives the pixels.
#[derive(Clone, Copy, Debug, PartialEq, Eq, Serialize, Deserialize, PartialOrd, Ord, Hash)]
pub enum Kind {
    /// `TypedImageRef::new` (src) / `TypedImage::from_pixels_slice` (dst), over the exact or an oversized slice
    Slice,
    /// `TypedImageRef::from_buffer` (src) / `TypedImage::from_buffer` (dst) over bytes
    Buffer,
    /// `TypedImage::from_pixels_slice` used as a *source*
    ImgAsSrc,
    /// owned `TypedImage::new` (pixels copied in / out)
    Owned,
    /// `TypedCroppedImage(Mut)::from_ref` inside a larger parent
    CropRef,
    /// `TypedCroppedImage(Mut)::new` (parent view moved in)
    CropNew,
    /// crop of a crop
    Crop2,
    /// a *mutable* cropped view (`TypedCroppedImageMut` over a `TypedImage`) used as a SOURCE
    CropMutAsSrc,
    /// harness container (user implementation of the public trait), inherits default splits
    Sim,
    /// harness container that declines every split request
    SimNoSplit,
    /// `TypedCroppedImage(Mut)` over the harness container
    CropSim,
    /// harness adapter around a library `TypedImageRef` / `TypedImage`: delegates
    /// everything (also the library's specialised split implementations) but every row
    /// hand-out is a scheduling point
    YSlice,
    /// the same adapter around a library `TypedCroppedImage(Mut)` inside a larger parent
    YCrop,
    // dynamic entry point
    /// `ImageRef::new` (src) / `Image::from_slice_u8` (dst)
    DynSlice,
    /// `Image::from_slice_u8` used as a source
    DynImgAsSrc,
    /// owned `Image::new` / `Image::from_vec_u8`
    DynOwned,
    /// `CroppedImage(Mut)::new` over an `ImageRef` / `Image`
    DynCrop,
    /// `CroppedImage(Mut)` of `CroppedImage(Mut)`
    DynCrop2,
    /// `CroppedImageMut` over an `Image` used as a SOURCE (its immutable view)
    DynCropMutAsSrc,
}

impl Kind {
    pub fn is_dyn(self) -> bool {
        matches!(self, Kind::DynSlice | Kind::DynImgAsSrc | Kind::DynOwned | Kind::DynCrop | Kind::DynCrop2 | Kind::DynCropMutAsSrc)
    }
    pub fn is_sim(self) -> bool {
        matches!(self, Kind::Sim | Kind::SimNoSplit | Kind::CropSim)
    }
    /// containers implemented by the harness (scheduling points at row hand-outs)
    pub fn is_harness(self) -> bool {
        self.is_sim() || matches!(self, Kind::YSlice | Kind::YCrop)
    }
    pub fn is_cropped(self) -> bool {
        matches!(self, Kind::CropRef | Kind::CropNew | Kind::Crop2 | Kind::CropSim | Kind::DynCrop | Kind::DynCrop2 | Kind::YCrop | Kind::CropMutAsSrc | Kind::DynCropMutAsSrc)
    }
    pub fn allows_tail(self) -> bool {
        !matches!(self, Kind::Owned | Kind::DynOwned | Kind::Sim | Kind::SimNoSplit | Kind::CropSim)
    }
}

#[derive(Clone, Copy, Debug, PartialEq, Eq, Serialize, Deserialize)]
pub enum Content {
    Random,
    Ramp,
    Zeros,
    Ones,
    Checker,
    /// random colour, alpha channel mostly 0 / max
    AlphaEdges,
    /// random colour, fully opaque (alpha = max everywhere)
    Opaque,
    /// random colour, opaque except for a handful of translucent pixels
    SparseAlpha,
    /// min / max blocks whose size (encoded in the content seed: low 16 bits = width, next
    /// 16 bits = height) is the footprint of one destination pixel: the sign-adversarial
    /// content for kernels with negative lobes (largest accumulator excursions)
    Blocks,
    /// float types: every value subnormal (flush-to-zero / denormals-are-zero modes of the
    /// FPU change the result); integer types: small values
    Tiny,
    /// float types: ill-conditioned sums - +B, -B (B = 2^55..2^100) interleaved with values in
    /// 0..1, in one of four period-4 patterns along x + y: whenever a kernel gives the two big
    /// values the same weight (Box at integer ratios, mirrored taps of a symmetric kernel) the
    /// result depends on the *order* of the additions, which must therefore not depend on the
    /// band a pixel falls into; integer types: same as Random
    Cancel,
}

#[derive(Clone, Debug, PartialEq, Serialize, Deserialize)]
pub struct Img {
    pub w: u32,
    pub h: u32,
    pub kind: Kind,
    /// spare columns / rows around the logical rectangle inside the parent: l, t, r, b
    pub pad: [u32; 4],
    /// second ring for crops of crops
    pub pad2: [u32; 4],
    /// spare pixels after the last pixel of the parent (oversized buffer)
    pub tail: u32,
    /// 1 = flush against the trailing guard page, 2 = flush against the leading one
    pub place: u8,
    pub content: Content,
    pub content_seed: u64,
    /// harness container only: extra pixels between rows, yield at every row hand-out,
    /// panic at the k-th hand-out (0 = never)
    pub stride_extra: u32,
    pub yield_rows: bool,
    pub panic_at: u64,
    /// byte-slice containers only (`Buffer`, `DynSlice`, `DynImgAsSrc`): the slice handed
    /// to the constructor starts this many bytes after an aligned address. For pixel types
    /// with alignment > 1 the constructor has to answer `InvalidBufferAlignment`; u8 types
    /// simply live at an odd address.
    #[serde(default)]
    pub misalign: u8,
    /// cropped SOURCE views only (`CropRef`, `CropNew`, `DynCrop`): hand these (left, top,
    /// width, height) to the view's constructor instead of the geometry above - values a
    /// safe caller may pass, including ones whose sum wraps around u32. The constructor
    /// either answers a `CropBoxError` (the operation's outcome) or accepts, and then the
    /// operation runs on whatever view it built.
    #[serde(default)]
    pub view_override: Option<[u32; 4]>,
}

#[derive(Clone, Debug, PartialEq, Serialize, Deserialize)]
pub struct ResizeOp {
    pub pt: Pt,
    pub src: Img,
    pub dst: Img,
    pub alg: Alg,
    pub crop: Crop,
    pub use_alpha: bool,
    /// pixel type the *destination* claims through the dynamic API (type-mismatch errors)
    pub dst_pt: Option<Pt>,
    /// fault F7: the source is ONE image shared by the clients of the run (every client
    /// whose operation carries this flag reads the same backing store concurrently)
    #[serde(default)]
    pub shared_src: bool,
}

#[derive(Clone, Debug, PartialEq, Serialize, Deserialize)]
pub struct AlphaOp {
    pub pt: Pt,
    pub src: Option<Img>, // None = in place
    pub dst: Img,
    pub divide: bool,
}

#[derive(Clone, Debug, PartialEq, Serialize, Deserialize)]
pub struct MapOp {
    pub pt: Pt,
    pub dst_pt: Pt,
    pub srgb: bool,
    pub forward: bool,
    pub src: Option<Img>,
    pub dst: Img,
}

#[derive(Clone, Debug, PartialEq, Serialize, Deserialize)]
pub struct ConvertOp {
    pub pt: Pt,
    pub dst_pt: Pt,
    pub src: Img,
    pub dst: Img,
}

#[derive(Clone, Debug, PartialEq, Serialize, Deserialize)]
pub enum OpKind {
    Resize(ResizeOp),
    Alpha(AlphaOp),
    Map(MapOp),
    Convert(ConvertOp),
    /// `Resizer::reset_internal_buffers`
    Reset,
    /// `Resizer::clone`; continue on the clone (true) or on the original (false)
    CloneResizer { switch: bool },
    /// go back to resizer number n of this client (original or an earlier clone)
    SwitchResizer { to: u32 },
}

#[derive(Clone, Debug, PartialEq, Serialize, Deserialize)]
pub struct Op {
    pub kind: OpKind,
    /// values returned by consecutive `current_num_threads()` calls during this op
    pub pool: Vec<u32>,
    pub backend: Backend,
}

#[derive(Clone, Debug, PartialEq, Serialize, Deserialize)]
pub struct Client {
    pub ops: Vec<Op>,
}

#[derive(Clone, Debug, PartialEq, Serialize, Deserialize)]
pub struct Sched {
    /// "random" | "pct" | "replay" | "trivial"
    pub mode: String,
    pub seed: u64,
    pub depth: u32,
    /// recorded task choices / data draws per variation (filled in traces; used by "replay")
    #[serde(default)]
    pub choices: Vec<Vec<u32>>,
    #[serde(default)]
    pub data: Vec<Vec<u64>>,
    /// replay: fail on divergence (true) or fall back to the first runnable task
    #[serde(default)]
    pub strict: bool,
}

#[derive(Clone, Debug, PartialEq, Serialize, Deserialize)]
pub struct AllocSpec {
    pub seed: u64,
    pub p_flush_start: u8,
    pub misalign_scratch: bool,
    pub forced_k: u8,
}

#[derive(Clone, Debug, PartialEq, Serialize, Deserialize)]
pub struct Scenario {
    pub format: u32,
    pub prop: String,
    pub run_seed: u64,
    pub clients: Vec<Client>,
    pub sched: Sched,
    pub alloc: AllocSpec,
    /// C13: every op is the same logical operation through another container recipe and
    /// gets a fresh `Resizer`
    #[serde(default)]
    pub fresh_resizer_each_op: bool,
    /// C05 only: snapshot the destination at job boundaries (write-set tiling)
    #[serde(default)]
    pub job_snapshots: bool,
    /// free text written by the generator: which shape / geometry classes were drawn
    #[serde(default)]
    pub classes: Vec<String>,
}

impl Scenario {
    pub fn n_ops(&self) -> usize {
        self.clients.iter().map(|c| c.ops.len()).sum()
    }
}

#[derive(Clone, Debug, PartialEq, Serialize, Deserialize)]
pub struct Violation {
    pub class: String,
    pub client: u32,
    pub op: u32,
    /// code location (panic / crash) or the oracle that fired
    pub site: String,
    pub detail: String,
}
