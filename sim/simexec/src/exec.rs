//! Executes one variation of a scenario inside a shuttle execution and records, per
//! operation, the outcome and the complete destination backing store.

use crate::images::*;
use crate::scenario::*;
use fast_image_resize as fir;
use fir::{ImageView, ImageViewMut, IntoImageView, IntoImageViewMut, PixelTrait};
use simcore::{arena, events, zone};
use std::panic::{catch_unwind, AssertUnwindSafe};
use std::sync::atomic::Ordering;
use std::sync::{Arc, Mutex};

#[derive(Clone, Debug, PartialEq)]
pub enum Outcome {
    Ok,
    Err(String),
    Panic { msg: String, loc: String, injected: bool },
    /// state operation (reset / clone / switch)
    State,
}

impl Outcome {
    pub fn short(&self) -> String {
        match self {
            Outcome::Ok => "Ok".into(),
            Outcome::Err(e) => format!("Err({})", e),
            Outcome::Panic { msg, loc, injected } => {
                if *injected {
                    "Panic(injected)".into()
                } else {
                    format!("Panic({} @ {})", msg, loc)
                }
            }
            Outcome::State => "State".into(),
        }
    }
}

#[derive(Clone, Debug)]
pub struct OpOut {
    pub outcome: Outcome,
    /// the whole destination backing store after the operation
    pub dst: Vec<u8>,
    pub dst_geo: Option<Geo>,
    pub src_changed: Option<usize>,
    /// Σ|w| class of a custom filter (None = built-in): max over windows, both axes
    pub clip_minmax: Option<(i64, i64)>,
}

#[derive(Clone, Copy, Debug, Default)]
pub struct Var {
    pub id: u8,
    pub sentinel: u8,
    pub force_pool1: bool,
    pub fresh_resizer: bool,
}

// ---------------------------------------------------------------------------------------
// panic capture

pub static LAST_PANIC: Mutex<Option<(String, String)>> = Mutex::new(None);

pub fn install_panic_hook() {
    std::panic::set_hook(Box::new(|info| {
        let _z = zone::enter(zone::OFF);
        let msg = if let Some(s) = info.payload().downcast_ref::<&str>() {
            s.to_string()
        } else if let Some(s) = info.payload().downcast_ref::<String>() {
            s.clone()
        } else {
            "<non-string panic payload>".to_string()
        };
        let loc = info.location().map(|l| format!("{}:{}", l.file(), l.line())).unwrap_or_default();
        // kept for the crash handler: a panic that cannot unwind ends in SIGABRT
        simcore::arena::set_note(&format!("{} @ {}", msg.replace('\n', " "), loc));
        if std::env::var_os("FIR_SIM_VERBOSE_PANICS").is_some() {
            eprintln!("panic: {} @ {}", msg, loc);
        }
        if let Ok(mut g) = LAST_PANIC.try_lock() {
            // keep the FIRST panic of an operation (a panic while unwinding is secondary)
            if g.is_none() {
                *g = Some((msg, loc));
            }
        }
    }));
}

/// `…/srcshim/src/resizer.rs:412` -> `src/resizer.rs:412`
fn strip_repo(loc: &str) -> String {
    match loc.find("srcshim/") {
        Some(i) => loc[i + 8..].to_string(),
        None => loc.replace("/repo/", ""),
    }
}

fn guarded<R>(f: impl FnOnce() -> R) -> Result<R, Outcome> {
    {
        let _z = zone::enter(zone::OFF);
        *LAST_PANIC.lock().unwrap() = None;
        arena::clear_note();
    }
    let r = {
        let _z = zone::enter(zone::LIBRARY);
        catch_unwind(AssertUnwindSafe(f))
    };
    match r {
        Ok(v) => Ok(v),
        Err(_) => {
            let _z = zone::enter(zone::OFF);
            let (msg, loc) = LAST_PANIC.lock().unwrap().take().unwrap_or_default();
            arena::clear_note();
            // a library constructor refusing the (deliberately misaligned / short) byte slice
            // the harness offered is a documented error, not a panic of the library
            if loc.contains("simexec/src/images.rs") && msg.contains("on an `Err` value: ") && msg.contains("OutOfImageBoundaries") {
                let v = if msg.contains("PositionIsOutOfImageBoundaries") { "PositionIsOutOfImageBoundaries" } else { "SizeIsOutOfImageBoundaries" };
                return Err(Outcome::Err(format!("CropBoxError::{}", v)));
            }
            if loc.contains("simexec/src/images.rs") && msg.contains("on an `Err` value: Invalid") {
                let v = if msg.contains("InvalidBufferAlignment") { "InvalidBufferAlignment" } else { "InvalidBufferSize" };
                return Err(Outcome::Err(format!("ImageBufferError::{}", v)));
            }
            let injected = msg.contains(INJECTED_PANIC);
            Err(Outcome::Panic { msg, loc: strip_repo(&loc), injected })
        }
    }
}

// ---------------------------------------------------------------------------------------
// custom filters: plain `fn(f64) -> f64` items, one per (family, gain)

fn sinc(x: f64) -> f64 {
    if x == 0.0 {
        1.0
    } else {
        let x = x * std::f64::consts::PI;
        x.sin() / x
    }
}
/// family 0: Lanczos-A (A = gain), family 1: 1 + g*cos(pi x) on |x| < 2 (strong negative
/// lobes), family 2: bicubic with a = -g (sharpening), family 3: alternating-sign comb,
/// family 4: untruncated Gaussian (sigma = gain), family 5: constant 1 (both non-zero beyond
/// their declared support, with fractional supports)
fn cust<const FAM: u8, const G10: i32>(x: f64) -> f64 {
    let g = G10 as f64 / 10.0;
    match FAM {
        0 => {
            if x.abs() < g {
                sinc(x) * sinc(x / g)
            } else {
                0.0
            }
        }
        1 => {
            if x.abs() < 2.0 {
                1.0 + g * (std::f64::consts::PI * x).cos()
            } else {
                0.0
            }
        }
        2 => {
            let a = -g;
            let x = x.abs();
            if x < 1.0 {
                ((a + 2.) * x - (a + 3.)) * x * x + 1.
            } else if x < 2.0 {
                (((x - 5.) * x + 8.) * x - 4.) * a
            } else {
                0.0
            }
        }
        4 => {
            // Gaussian that is NOT truncated at its declared support
            (-(x * x) / (2.0 * g * g)).exp()
        }
        5 => {
            // flat kernel, non-zero everywhere (beyond its declared support too)
            let _ = g;
            1.0
        }
        _ => {
            if x.abs() < 3.0 {
                let k = (x + 100.5).floor() as i64;
                if k % 2 == 0 {
                    1.0 + g
                } else {
                    -g
                }
            } else {
                0.0
            }
        }
    }
}

pub const CUSTOM_TABLE: [(u8, i32, f64); 32] = [
    (0, 20, 2.0),
    (0, 40, 4.0),
    (0, 50, 5.0),
    (0, 80, 8.0),
    (1, 2, 2.0),
    (1, 5, 2.0),
    (1, 10, 2.0),
    (1, 30, 2.0),
    (1, 50, 2.0),
    (1, 55, 2.0),
    (1, 100, 2.0),
    (1, 300, 2.0),
    (2, 5, 2.0),
    (2, 10, 2.0),
    (2, 20, 2.0),
    (2, 40, 2.0),
    (2, 60, 2.0),
    (2, 80, 2.0),
    (3, 1, 3.0),
    (3, 3, 3.0),
    (3, 5, 3.0),
    (3, 10, 3.0),
    (3, 12, 3.0),
    (3, 14, 3.0),
    (3, 30, 3.0),
    (0, 30, 3.0),
    (4, 5, 1.5),
    (4, 10, 2.5),
    (4, 10, 0.7),
    (4, 20, 3.3),
    (5, 10, 1.3),
    (5, 10, 0.3),
];

fn custom_fn(family: u8, g10: i32) -> fn(f64) -> f64 {
    macro_rules! t {
        ($(($f:literal, $g:literal)),*) => {
            match (family, g10) {
                $(($f, $g) => cust::<$f, $g> as fn(f64) -> f64,)*
                _ => cust::<0, 20> as fn(f64) -> f64,
            }
        };
    }
    t!(
        (0, 20), (0, 30), (0, 40), (0, 50), (0, 80),
        (1, 2), (1, 5), (1, 10), (1, 30), (1, 50), (1, 55), (1, 100), (1, 300),
        (2, 5), (2, 10), (2, 20), (2, 40), (2, 60), (2, 80),
        (3, 1), (3, 3), (3, 5), (3, 10), (3, 12), (3, 14), (3, 30),
        (4, 5), (4, 10), (4, 20), (5, 10)
    )
}

pub fn filter_type(f: Filt) -> Result<fir::FilterType, LibErr> {
    use fir::FilterType as T;
    Ok(match f {
        Filt::Box => T::Box,
        Filt::Bilinear => T::Bilinear,
        Filt::Hamming => T::Hamming,
        Filt::CatmullRom => T::CatmullRom,
        Filt::Mitchell => T::Mitchell,
        Filt::Gaussian => T::Gaussian,
        Filt::Lanczos3 => T::Lanczos3,
        Filt::Custom { family, gain, support } => {
            let g10 = (gain.0 * 10.0).round() as i32;
            let func = custom_fn(family, g10);
            match fir::Filter::new("sim-custom", func, support.0) {
                Ok(flt) => T::Custom(flt),
                Err(e) => return Err(LibErr::Filter(e)),
            }
        }
    })
}

pub fn resize_options(r: &ResizeOp) -> Result<fir::ResizeOptions, LibErr> {
    let alg = match r.alg {
        Alg::Nearest => fir::ResizeAlg::Nearest,
        Alg::Conv(f) => fir::ResizeAlg::Convolution(filter_type(f)?),
        Alg::Interp(f) => fir::ResizeAlg::Interpolation(filter_type(f)?),
        Alg::Super(f, m) => fir::ResizeAlg::SuperSampling(filter_type(f)?, m),
    };
    let mut o = fir::ResizeOptions::new().resize_alg(alg).use_alpha(r.use_alpha);
    match r.crop {
        Crop::None => {}
        Crop::Box(b) => o = o.crop(b[0].0, b[1].0, b[2].0, b[3].0),
        Crop::Fit(x, y) => o = o.fit_into_destination(Some((x.0, y.0))),
    }
    Ok(o)
}

pub fn host_backends() -> Vec<Backend> {
    let mut v = vec![Backend::None];
    if fir::CpuExtensions::Sse4_1.is_supported() {
        v.push(Backend::Sse4_1);
    }
    if fir::CpuExtensions::Avx2.is_supported() {
        v.push(Backend::Avx2);
    }
    v
}

fn cpu_ext(b: Backend) -> fir::CpuExtensions {
    let e = match b {
        Backend::None => fir::CpuExtensions::None,
        Backend::Sse4_1 => fir::CpuExtensions::Sse4_1,
        Backend::Avx2 => fir::CpuExtensions::Avx2,
    };
    if e.is_supported() {
        e
    } else {
        fir::CpuExtensions::None
    }
}

// ---------------------------------------------------------------------------------------
// pixel-type dispatch

macro_rules! with_pt {
    ($pt:expr, $P:ident, $body:expr) => {{
        use fir::pixels as px;
        match $pt {
            Pt::U8 => {
                type $P = px::U8;
                $body
            }
            Pt::U8x2 => {
                type $P = px::U8x2;
                $body
            }
            Pt::U8x3 => {
                type $P = px::U8x3;
                $body
            }
            Pt::U8x4 => {
                type $P = px::U8x4;
                $body
            }
            Pt::U16 => {
                type $P = px::U16;
                $body
            }
            Pt::U16x2 => {
                type $P = px::U16x2;
                $body
            }
            Pt::U16x3 => {
                type $P = px::U16x3;
                $body
            }
            Pt::U16x4 => {
                type $P = px::U16x4;
                $body
            }
            Pt::I32 => {
                type $P = px::I32;
                $body
            }
            Pt::F32 => {
                type $P = px::F32;
                $body
            }
            Pt::F32x2 => {
                type $P = px::F32x2;
                $body
            }
            Pt::F32x3 => {
                type $P = px::F32x3;
                $body
            }
            Pt::F32x4 => {
                type $P = px::F32x4;
                $body
            }
        }
    }};
}

// ---------------------------------------------------------------------------------------
// operations

/// Error values are carried out of the library zone unformatted (a String built inside
/// the zone would live in the arena and die with the execution).
#[derive(Debug, Clone)]
pub enum LibErr {
    Resize(fir::ResizeError),
    MulDiv(fir::MulDivImagesError),
    Image(fir::ImageError),
    Mapping(fir::MappingError),
    Filter(fir::CreateFilterError),
}
impl LibErr {
    pub fn name(&self) -> String {
        match self {
            LibErr::Resize(e) => format!("ResizeError::{:?}", e),
            LibErr::MulDiv(e) => format!("MulDivImagesError::{:?}", e),
            LibErr::Image(e) => format!("ImageError::{:?}", e),
            LibErr::Mapping(e) => format!("MappingError::{:?}", e),
            LibErr::Filter(e) => format!("CreateFilterError::{:?}", e),
        }
    }
}

struct ResizeT<'a> {
    rz: &'a mut fir::Resizer,
    opts: &'a fir::ResizeOptions,
}
impl<'a, P: PixelTrait> TypedOp2<P, Result<(), LibErr>> for ResizeT<'a> {
    fn call<S: ImageView<Pixel = P>, D: ImageViewMut<Pixel = P>>(&mut self, s: &S, d: &mut D) -> Result<(), LibErr> {
        self.rz.resize_typed(s, d, self.opts).map_err(LibErr::Resize)
    }
}
impl<'a> DynOp2<Result<(), LibErr>> for ResizeT<'a> {
    fn call<S: IntoImageView, D: IntoImageViewMut>(&mut self, s: &S, d: &mut D) -> Result<(), LibErr> {
        self.rz.resize(s, d, self.opts).map_err(LibErr::Resize)
    }
}

struct AlphaT {
    md: fir::MulDiv,
    divide: bool,
}
impl<P: PixelTrait> TypedOp2<P, Result<(), LibErr>> for AlphaT {
    fn call<S: ImageView<Pixel = P>, D: ImageViewMut<Pixel = P>>(&mut self, s: &S, d: &mut D) -> Result<(), LibErr> {
        if self.divide {
            self.md.divide_alpha_typed(s, d).map_err(LibErr::MulDiv)
        } else {
            self.md.multiply_alpha_typed(s, d).map_err(LibErr::MulDiv)
        }
    }
}
impl<P: PixelTrait> TypedOp1<P, Result<(), LibErr>> for AlphaT {
    fn call<D: ImageViewMut<Pixel = P>>(&mut self, d: &mut D) -> Result<(), LibErr> {
        if self.divide {
            self.md.divide_alpha_inplace_typed(d).map_err(LibErr::Image)
        } else {
            self.md.multiply_alpha_inplace_typed(d).map_err(LibErr::Image)
        }
    }
}
impl DynOp2<Result<(), LibErr>> for AlphaT {
    fn call<S: IntoImageView, D: IntoImageViewMut>(&mut self, s: &S, d: &mut D) -> Result<(), LibErr> {
        if self.divide {
            self.md.divide_alpha(s, d).map_err(LibErr::MulDiv)
        } else {
            self.md.multiply_alpha(s, d).map_err(LibErr::MulDiv)
        }
    }
}
impl DynOp1<Result<(), LibErr>> for AlphaT {
    fn call<D: IntoImageViewMut>(&mut self, d: &mut D) -> Result<(), LibErr> {
        if self.divide {
            self.md.divide_alpha_inplace(d).map_err(LibErr::Image)
        } else {
            self.md.multiply_alpha_inplace(d).map_err(LibErr::Image)
        }
    }
}

struct MapT<'a> {
    mapper: &'a fir::PixelComponentMapper,
    forward: bool,
}
impl<'a> DynOp2<Result<(), LibErr>> for MapT<'a> {
    fn call<S: IntoImageView, D: IntoImageViewMut>(&mut self, s: &S, d: &mut D) -> Result<(), LibErr> {
        if self.forward {
            self.mapper.forward_map(s, d).map_err(LibErr::Mapping)
        } else {
            self.mapper.backward_map(s, d).map_err(LibErr::Mapping)
        }
    }
}
impl<'a> DynOp1<Result<(), LibErr>> for MapT<'a> {
    fn call<D: IntoImageViewMut>(&mut self, d: &mut D) -> Result<(), LibErr> {
        if self.forward {
            self.mapper.forward_map_inplace(d).map_err(LibErr::Mapping)
        } else {
            self.mapper.backward_map_inplace(d).map_err(LibErr::Mapping)
        }
    }
}

struct ConvertT;
impl DynOp2<Result<(), LibErr>> for ConvertT {
    fn call<S: IntoImageView, D: IntoImageViewMut>(&mut self, s: &S, d: &mut D) -> Result<(), LibErr> {
        fir::change_type_of_pixel_components(s, d).map_err(LibErr::Mapping)
    }
}

fn surround_seed(img: &Img) -> u64 {
    img.content_seed ^ 0x5EED_0000 ^ ((img.kind as u64) << 8) ^ ((img.pad[0] as u64) << 20) ^ ((img.tail as u64) << 32)
}

/// Source store: logical rectangle = content(content_seed), everything else = noise that
/// differs per container recipe.
pub fn make_src(img: &Img, pt: Pt) -> Backing {
    let mut b = Backing::new(img, pt, TAG_SRC);
    {
        let _z = zone::enter(zone::OFF);
        let mut rng = simcore::Rng::new(surround_seed(img));
        let g = b.g;
        if b.vec.len() != g.w as usize * g.h as usize * g.px {
            // noise: finite-looking bytes (avoid exotic float patterns in never-read places
            // is not needed - they must never be read)
            for chunk in b.vec.chunks_mut(8) {
                let r = rng.next_u64().to_ne_bytes();
                chunk.copy_from_slice(&r[..chunk.len()]);
            }
            // float images: a good share of the never-to-be-read neighbours are NaN / inf,
            // so that even a neighbour "weighted by zero" shows in the result
            if pt.comp_kind() == 3 {
                let specials = [f32::NAN, f32::INFINITY, f32::NEG_INFINITY, -f32::NAN];
                let start = b.g.off;
                let mut i = start;
                while i + 4 <= b.vec.len() {
                    let r = rng.next_u64();
                    if r % 3 == 0 {
                        b.vec[i..i + 4].copy_from_slice(&specials[((r >> 8) % 4) as usize].to_ne_bytes());
                    }
                    i += 4;
                }
            }
        }
        let data = content_bytes(pt, g.w as usize * g.h as usize, g.w as usize, img.content, img.content_seed);
        b.set_logical(&data);
    }
    b
}

pub fn make_dst(img: &Img, pt: Pt, sentinel: u8, inplace_content: bool) -> Backing {
    let mut b = Backing::new(img, pt, TAG_DST);
    {
        let _z = zone::enter(zone::OFF);
        sentinel_fill(&mut b.vec, sentinel);
        if inplace_content {
            let g = b.g;
            let data = content_bytes(pt, g.w as usize * g.h as usize, g.w as usize, img.content, img.content_seed);
            b.set_logical(&data);
        }
    }
    b
}

fn first_diff(a: &[u8], b: &[u8]) -> Option<usize> {
    a.iter().zip(b.iter()).position(|(x, y)| x != y)
}

fn finish(outcome: Result<Result<(), LibErr>, Outcome>, src: Option<(&Backing, &[u8])>, dst: &Backing) -> OpOut {
    let _z = zone::enter(zone::OFF);
    let outcome = match outcome {
        Ok(Ok(())) => Outcome::Ok,
        Ok(Err(e)) => Outcome::Err(e.name()),
        Err(p) => p,
    };
    OpOut {
        outcome,
        dst: dst.vec.clone(),
        dst_geo: Some(dst.g),
        src_changed: src.and_then(|(b, before)| first_diff(&b.vec, before)),
        clip_minmax: None,
    }
}

/// F7: the source image shared by the clients of this execution, and its pristine copy
pub static SHARED_SRC: Mutex<Option<(Arc<Backing>, Arc<Vec<u8>>)>> = Mutex::new(None);

pub fn exec_resize(rz: &mut fir::Resizer, r: &ResizeOp, backend: Option<Backend>, var: Var) -> OpOut {
    let shared = if r.shared_src { SHARED_SRC.lock().unwrap().clone() } else { None };
    let owned;
    let owned_before;
    let (src, src_before): (&Backing, &Vec<u8>) = match &shared {
        Some((b, before)) if b.pt == r.pt && b.g.w == r.src.w && b.g.h == r.src.h => (&**b, &**before),
        _ => {
            owned = make_src(&r.src, r.pt);
            owned_before = zone::off(|| owned.vec.clone());
            (&owned, &owned_before)
        }
    };
    let dpt = r.dst_pt.unwrap_or(r.pt);
    let mut dst = make_dst(&r.dst, dpt, var.sentinel, false);
    let opts = match resize_options(r) {
        Ok(o) => o,
        Err(e) => return finish(Ok(Err(e)), Some((src, src_before)), &dst),
    };
    if let Some(b) = backend {
        unsafe { rz.set_cpu_extensions(cpu_ext(b)) };
    }
    set_watch(&dst);
    let res = if r.src.kind.is_dyn() {
        guarded(|| {
            let mut op = ResizeT { rz, opts: &opts };
            with_dyn2(&r.src, src, r.pt, &r.dst, &mut dst, dpt, &mut op)
        })
    } else {
        with_pt!(r.pt, P, guarded(|| {
            let mut op = ResizeT { rz, opts: &opts };
            with_typed2::<P, _, _>(&r.src, src, &r.dst, &mut dst, &mut op)
        }))
    };
    clear_watch();
    finish(res, Some((src, src_before)), &dst)
}

pub fn exec_alpha(a: &AlphaOp, backend: Backend, var: Var) -> OpOut {
    let mut md = fir::MulDiv::new();
    unsafe { md.set_cpu_extensions(cpu_ext(backend)) };
    let mut op = AlphaT { md, divide: a.divide };
    match &a.src {
        Some(si) => {
            let src = make_src(si, a.pt);
            let src_before = zone::off(|| src.vec.clone());
            let mut dst = make_dst(&a.dst, a.pt, var.sentinel, false);
            set_watch(&dst);
            let res = if si.kind.is_dyn() {
                guarded(|| with_dyn2(si, &src, a.pt, &a.dst, &mut dst, a.pt, &mut op))
            } else {
                with_pt!(a.pt, P, guarded(|| with_typed2::<P, _, _>(si, &src, &a.dst, &mut dst, &mut op)))
            };
            clear_watch();
            finish(res, Some((&src, &src_before)), &dst)
        }
        None => {
            let mut dst = make_dst(&a.dst, a.pt, var.sentinel, true);
            set_watch(&dst);
            let res = if a.dst.kind.is_dyn() {
                guarded(|| with_dyn1(&a.dst, &mut dst, a.pt, &mut op))
            } else {
                with_pt!(a.pt, P, guarded(|| with_typed1::<P, _, _>(&a.dst, &mut dst, &mut op)))
            };
            clear_watch();
            finish(res, None, &dst)
        }
    }
}

pub fn exec_map(m: &MapOp, var: Var) -> OpOut {
    let mapper = {
        let _z = zone::enter(zone::LIBRARY);
        if m.srgb {
            fir::create_srgb_mapper()
        } else {
            fir::create_gamma_22_mapper()
        }
    };
    let mut op = MapT { mapper: &mapper, forward: m.forward };
    match &m.src {
        Some(si) => {
            let src = make_src(si, m.pt);
            let src_before = zone::off(|| src.vec.clone());
            let mut dst = make_dst(&m.dst, m.dst_pt, var.sentinel, false);
            set_watch(&dst);
            let res = guarded(|| with_dyn2(si, &src, m.pt, &m.dst, &mut dst, m.dst_pt, &mut op));
            clear_watch();
            finish(res, Some((&src, &src_before)), &dst)
        }
        None => {
            let mut dst = make_dst(&m.dst, m.dst_pt, var.sentinel, true);
            set_watch(&dst);
            let res = guarded(|| with_dyn1(&m.dst, &mut dst, m.dst_pt, &mut op));
            clear_watch();
            finish(res, None, &dst)
        }
    }
}

pub fn exec_convert(c: &ConvertOp, var: Var) -> OpOut {
    let src = make_src(&c.src, c.pt);
    let src_before = zone::off(|| src.vec.clone());
    let mut dst = make_dst(&c.dst, c.dst_pt, var.sentinel, false);
    let mut op = ConvertT;
    set_watch(&dst);
    let res = guarded(|| with_dyn2(&c.src, &src, c.pt, &c.dst, &mut dst, c.dst_pt, &mut op));
    clear_watch();
    finish(res, Some((&src, &src_before)), &dst)
}

// ---------------------------------------------------------------------------------------
// job-boundary snapshots (O3b): which bytes of the destination did each job change?

pub struct Watch {
    ptr: usize,
    len: usize,
    snapshot: Vec<u8>,
    /// per byte: (phase << 12 | job) + 1 of the job that changed it, 0 = nobody
    owner: Vec<u32>,
    pub overlaps: Vec<(usize, u32, u32)>,
    pub enabled: bool,
    pub switches_at_begin: u64,
}
pub static WATCH: Mutex<Option<Watch>> = Mutex::new(None);
static SNAPSHOTS_ON: std::sync::atomic::AtomicBool = std::sync::atomic::AtomicBool::new(false);
pub static WATCH_OVERLAPS: Mutex<Vec<(u32, usize, u32, u32)>> = Mutex::new(Vec::new());

pub fn enable_snapshots(on: bool) {
    SNAPSHOTS_ON.store(on, Ordering::Relaxed);
    events::set_job_hook(if on { Some(job_hook) } else { None });
}

fn set_watch(dst: &Backing) {
    if !SNAPSHOTS_ON.load(Ordering::Relaxed) {
        return;
    }
    let _z = zone::enter(zone::OFF);
    *WATCH.lock().unwrap() = Some(Watch {
        ptr: dst.vec.as_ptr() as usize,
        len: dst.vec.len(),
        snapshot: Vec::new(),
        owner: vec![0; dst.vec.len()],
        overlaps: Vec::new(),
        enabled: true,
        switches_at_begin: 0,
    });
}
fn clear_watch() {
    if !SNAPSHOTS_ON.load(Ordering::Relaxed) {
        return;
    }
    let _z = zone::enter(zone::OFF);
    if let Some(w) = WATCH.lock().unwrap().take() {
        if !w.overlaps.is_empty() {
            let op = arena::CTX_OP.load(Ordering::Relaxed) as u32;
            let mut g = WATCH_OVERLAPS.lock().unwrap();
            for (off, a, b) in w.overlaps.iter().take(4) {
                g.push((op, *off, *a, *b));
            }
        }
    }
}

fn job_hook(begin: bool, phase: u32, job: u32) {
    let mut g = WATCH.lock().unwrap();
    let Some(w) = g.as_mut() else { return };
    if !w.enabled {
        return;
    }
    let cur = unsafe { std::slice::from_raw_parts(w.ptr as *const u8, w.len) };
    let switches = crate::sched::SWITCHES.load(Ordering::Relaxed);
    if begin {
        w.snapshot.clear();
        w.snapshot.extend_from_slice(cur);
        w.switches_at_begin = switches;
    } else if switches != w.switches_at_begin {
        // another task ran between the begin and the end of this job (a scheduling point
        // inside the job): snapshot differences cannot be attributed to one job any more
        w.enabled = false;
        w.overlaps.clear();
    } else if w.snapshot.len() == w.len {
        let me = ((phase << 12) | (job & 0xfff)) + 1;
        for i in 0..w.len {
            if cur[i] != w.snapshot[i] {
                let o = w.owner[i];
                if o != 0 && o != me && (o - 1) >> 12 == phase && w.overlaps.len() < 16 {
                    w.overlaps.push((i, o - 1, me - 1));
                }
                w.owner[i] = me;
            }
        }
    }
}

// ---------------------------------------------------------------------------------------
// clients

pub fn run_client(scn: &Scenario, ci: usize, var: Var, yield_between_ops: bool) -> Vec<OpOut> {
    events::set_client(ci as u8);
    let client = &scn.clients[ci];
    let mut resizers: Vec<fir::Resizer> = vec![{
        let _z = zone::enter(zone::LIBRARY);
        fir::Resizer::new()
    }];
    // the back-end each Resizer was last told to use (None = never told: CPU default).
    // `set_cpu_extensions` is called only when an operation asks for another back-end than
    // the Resizer already has, so that a clone / reset has to carry the setting itself.
    let mut known: Vec<Option<Backend>> = vec![None];
    let mut cur = 0usize;
    let mut outs = Vec::with_capacity(client.ops.len());
    for (k, op) in client.ops.iter().enumerate() {
        arena::CTX_OP.store(((ci as u64) << 16) | k as u64, Ordering::Relaxed);
        if var.force_pool1 {
            rayon::sim::set_pool(&[1]);
        } else {
            rayon::sim::set_pool(&op.pool);
        }
        let state = |o: Outcome| OpOut { outcome: o, dst: vec![], dst_geo: None, src_changed: None, clip_minmax: None };
        reset_handout_counter();
        let out = match &op.kind {
            OpKind::Reset => {
                if !var.fresh_resizer {
                    let _z = zone::enter(zone::LIBRARY);
                    resizers[cur].reset_internal_buffers();
                }
                state(Outcome::State)
            }
            OpKind::CloneResizer { switch } => {
                if !var.fresh_resizer {
                    let c = {
                        let _z = zone::enter(zone::LIBRARY);
                        resizers[cur].clone()
                    };
                    resizers.push(c);
                    known.push(known[cur]);
                    if *switch {
                        cur = resizers.len() - 1;
                    }
                }
                state(Outcome::State)
            }
            OpKind::SwitchResizer { to } => {
                if !var.fresh_resizer {
                    cur = (*to as usize).min(resizers.len() - 1);
                }
                state(Outcome::State)
            }
            OpKind::Resize(r) => {
                crate::probe::reset_clip();
                let mut o = if var.fresh_resizer || scn.fresh_resizer_each_op {
                    let mut fresh = {
                        let _z = zone::enter(zone::LIBRARY);
                        fir::Resizer::new()
                    };
                    let o = exec_resize(&mut fresh, r, Some(op.backend), var);
                    let _z = zone::enter(zone::LIBRARY);
                    drop(fresh);
                    o
                } else {
                    let set = if known[cur] == Some(op.backend) { None } else { Some(op.backend) };
                    known[cur] = Some(op.backend);
                    exec_resize(&mut resizers[cur], r, set, var)
                };
                o.clip_minmax = crate::probe::clip_minmax();
                o
            }
            OpKind::Alpha(a) => exec_alpha(a, op.backend, var),
            OpKind::Map(m) => exec_map(m, var),
            OpKind::Convert(c) => exec_convert(c, var),
        };
        outs.push(out);
        if yield_between_ops {
            simcore::sched_yield();
        }
    }
    {
        let _z = zone::enter(zone::LIBRARY);
        drop(resizers);
    }
    outs
}

/// Everything one shuttle execution produced.
#[derive(Debug, Default)]
pub struct ExecResult {
    pub outs: Vec<Vec<OpOut>>,
    pub log: events::Log,
    pub overlaps: Vec<(u32, usize, u32, u32)>,
}

pub static EXEC_SLOT: Mutex<Option<(Arc<Scenario>, Var)>> = Mutex::new(None);
pub static EXEC_RESULT: Mutex<Option<ExecResult>> = Mutex::new(None);

/// Body of one shuttle execution.
pub fn execution_body() {
    let (scn, var) = EXEC_SLOT.lock().unwrap().clone().expect("no scenario set");
    arena::CTX_VAR.store(var.id as u64, Ordering::Relaxed);
    arena::reset(
        scn.alloc.seed ^ ((var.id as u64) << 56),
        arena::Policy {
            p_flush_start: scn.alloc.p_flush_start,
            misalign_scratch: scn.alloc.misalign_scratch,
            forced_k: scn.alloc.forced_k,
        },
    );
    let keep = scn.clients.iter().any(|c| {
        c.ops.iter().any(|o| {
            let imgs: Vec<&Img> = match &o.kind {
                OpKind::Resize(r) => vec![&r.src, &r.dst],
                OpKind::Alpha(a) => a.src.iter().chain(std::iter::once(&a.dst)).collect(),
                _ => vec![],
            };
            imgs.iter().any(|i| i.kind.is_harness())
        })
    });
    events::reset(keep);
    reset_handout_counter();
    // job write-sets are only meaningful when a job contains no scheduling point
    enable_snapshots(scn.job_snapshots && !keep);
    WATCH_OVERLAPS.lock().unwrap().clear();
    // F7: one source image for all clients that ask for it
    {
        let first = scn.clients.iter().flat_map(|c| c.ops.iter()).find_map(|o| match &o.kind {
            OpKind::Resize(r) if r.shared_src => Some(r.clone()),
            _ => None,
        });
        let v = first.map(|r| {
            let b = make_src(&r.src, r.pt);
            let before = zone::off(|| b.vec.clone());
            (Arc::new(b), Arc::new(before))
        });
        *SHARED_SRC.lock().unwrap() = v;
    }
    let n = scn.clients.len();
    let outs: Vec<Vec<OpOut>> = if n == 1 || var.force_pool1 {
        (0..n).map(|ci| run_client(&scn, ci, var, false)).collect()
    } else {
        let handles: Vec<_> = (0..n)
            .map(|ci| {
                let scn = scn.clone();
                shuttle::thread::spawn(move || run_client(&scn, ci, var, true))
            })
            .collect();
        handles.into_iter().map(|h| h.join().unwrap()).collect()
    };
    enable_snapshots(false);
    {
        let v = SHARED_SRC.lock().unwrap().take();
        let _z = zone::enter(zone::USER);
        drop(v);
    }
    let log = events::take();
    let overlaps = std::mem::take(&mut *WATCH_OVERLAPS.lock().unwrap());
    *EXEC_RESULT.lock().unwrap() = Some(ExecResult { outs, log, overlaps });
}
