//! The allocator seam: a deterministic slot arena with guard pages.
//!
//! While an allocation zone is on (`zone::USER`, `zone::LIBRARY`) every request is served
//! from a slot `guard page | data pages | guard page` and placed inside the slot by a
//! PRNG-driven policy (flush against the trailing guard, flush against the leading guard,
//! or - for the library's own align-1 scratch buffers - at a chosen residue mod 16).
//! Freed memory is poisoned, fresh memory is pre-filled with a non-zero pattern, `realloc`
//! always moves. With the zone off the allocator forwards to `System`.
//!
//! A guard hit is a SIGSEGV; the handler prints one `CRASH ...` line and `_exit(70)`s.

use crate::prng::Rng;
use crate::zone;
use std::alloc::{GlobalAlloc, Layout, System};
use std::cell::UnsafeCell;
use std::sync::atomic::{AtomicBool, AtomicU64, AtomicUsize, Ordering};

pub const PAGE: usize = 4096;
pub const FILL_ALLOC: u8 = 0xA5;
pub const FILL_FREE: u8 = 0xDD;

/// (data pages per slot, number of slots)
const CLASSES: [(usize, usize); 7] = [
    (1, 8192),
    (4, 1536),
    (16, 256),
    (64, 96),
    (256, 32),
    (1024, 8),
    (4096, 2),
];

#[derive(Clone, Copy, Default)]
struct SlotMeta {
    live: bool,
    off: u32,
    size: u32,
    zone: u8,
    tag: u8,
}

struct Class {
    data_bytes: usize,
    n: usize,
    base: usize, // address of the first (leading) guard page of the class region
    stride: usize,
    free: *mut u32, // stack of free slot indices
    free_len: usize,
    meta: *mut SlotMeta,
}

#[derive(Clone, Copy, Debug, Default)]
pub struct Stats {
    pub user_allocs: u64,
    pub lib_allocs: u64,
    pub flush_end: u64,
    pub flush_start: u64,
    pub misaligned: u64,
    pub misalign_hist: [u64; 16],
    pub realloc_moves: u64,
    pub fallback_system: u64,
    pub stale_free: u64,
    pub max_live: u64,
    pub live: u64,
}

/// Placement policy of one execution.
#[derive(Clone, Copy, Debug)]
pub struct Policy {
    /// per-256 probability that a block sits flush against the *leading* guard
    pub p_flush_start: u8,
    /// draw the residue mod 16 of align-1 blocks requested inside `zone::LIBRARY`
    pub misalign_scratch: bool,
    /// forced residue (0..16) for those blocks, 255 = draw per allocation
    pub forced_k: u8,
}

impl Policy {
    pub const fn default() -> Self {
        Policy { p_flush_start: 48, misalign_scratch: true, forced_k: 255 }
    }
}

struct State {
    inited: bool,
    base: usize,
    len: usize,
    classes: [Class; 7],
    rng: Rng,
    policy: Policy,
    stats: Stats,
    next_tag: u8,
    next_place: u8, // 0 = policy, 1 = flush end, 2 = flush start (one-shot, for user buffers)
    next_align: usize, // one-shot alignment override for align-1 user requests
}

struct Cell(UnsafeCell<State>);
unsafe impl Sync for Cell {}

const EMPTY_CLASS: Class = Class {
    data_bytes: 0,
    n: 0,
    base: 0,
    stride: 0,
    free: std::ptr::null_mut(),
    free_len: 0,
    meta: std::ptr::null_mut(),
};

static STATE: Cell = Cell(UnsafeCell::new(State {
    inited: false,
    base: 0,
    len: 0,
    classes: [EMPTY_CLASS; 7],
    rng: Rng::zero(),
    policy: Policy::default(),
    stats: Stats {
        user_allocs: 0,
        lib_allocs: 0,
        flush_end: 0,
        flush_start: 0,
        misaligned: 0,
        misalign_hist: [0; 16],
        realloc_moves: 0,
        fallback_system: 0,
        stale_free: 0,
        max_live: 0,
        live: 0,
    },
    next_tag: 0,
    next_place: 0,
    next_align: 0,
}));
static LOCK: AtomicBool = AtomicBool::new(false);

// Context printed by the crash handler.
pub static CTX_RUN: AtomicU64 = AtomicU64::new(0);
pub static CTX_SEED: AtomicU64 = AtomicU64::new(0);
pub static CTX_OP: AtomicU64 = AtomicU64::new(0);
pub static CTX_VAR: AtomicU64 = AtomicU64::new(0);
static NOTE: Cell2 = Cell2(UnsafeCell::new(([0u8; 400], 0usize)));
struct Cell2(UnsafeCell<([u8; 400], usize)>);
unsafe impl Sync for Cell2 {}
/// Remember the last panic message (printed by the crash handler after an abort).
pub fn set_note(s: &str) {
    unsafe {
        let n = &mut *NOTE.0.get();
        let b = s.as_bytes();
        let l = b.len().min(400);
        n.0[..l].copy_from_slice(&b[..l]);
        n.1 = l;
    }
}
pub fn clear_note() {
    unsafe { (*NOTE.0.get()).1 = 0 }
}
static ARENA_BASE: AtomicUsize = AtomicUsize::new(0);
static ARENA_LEN: AtomicUsize = AtomicUsize::new(0);

struct LockGuard;
impl Drop for LockGuard {
    fn drop(&mut self) {
        LOCK.store(false, Ordering::Release);
    }
}
#[inline]
fn lock() -> (LockGuard, &'static mut State) {
    while LOCK
        .compare_exchange_weak(false, true, Ordering::Acquire, Ordering::Relaxed)
        .is_err()
    {
        std::hint::spin_loop();
    }
    (LockGuard, unsafe { &mut *STATE.0.get() })
}

unsafe fn mmap_rw(len: usize) -> *mut u8 {
    let p = libc::mmap(
        std::ptr::null_mut(),
        len,
        libc::PROT_READ | libc::PROT_WRITE,
        libc::MAP_PRIVATE | libc::MAP_ANONYMOUS,
        -1,
        0,
    );
    if p == libc::MAP_FAILED {
        libc::abort();
    }
    p as *mut u8
}

/// Reserve the arena and install the crash handler. Must be called once, first thing in
/// `main`, with the zone off.
pub fn init() {
    let (_g, st) = lock();
    if st.inited {
        return;
    }
    unsafe {
        let mut total = 0usize;
        for &(pages, n) in CLASSES.iter() {
            total += (n * (pages + 1) + 1) * PAGE;
        }
        let base = libc::mmap(
            std::ptr::null_mut(),
            total,
            libc::PROT_NONE,
            libc::MAP_PRIVATE | libc::MAP_ANONYMOUS | libc::MAP_NORESERVE,
            -1,
            0,
        );
        if base == libc::MAP_FAILED {
            libc::abort();
        }
        let base = base as usize;
        st.base = base;
        st.len = total;
        ARENA_BASE.store(base, Ordering::Relaxed);
        ARENA_LEN.store(total, Ordering::Relaxed);
        let mut cur = base;
        for (ci, &(pages, n)) in CLASSES.iter().enumerate() {
            let stride = (pages + 1) * PAGE;
            let c = &mut st.classes[ci];
            c.data_bytes = pages * PAGE;
            c.n = n;
            c.base = cur;
            c.stride = stride;
            c.free = mmap_rw(n * 4) as *mut u32;
            c.meta = mmap_rw(n * std::mem::size_of::<SlotMeta>()) as *mut SlotMeta;
            // one mprotect per slot keeps the guards PROT_NONE
            for i in 0..n {
                let data = cur + PAGE + i * stride;
                if libc::mprotect(data as *mut _, pages * PAGE, libc::PROT_READ | libc::PROT_WRITE)
                    != 0
                {
                    libc::abort();
                }
            }
            cur += (n * (pages + 1) + 1) * PAGE;
        }
        st.inited = true;
    }
    reset_locked(st, 0, Policy::default(), true);
    install_crash_handler();
}

fn reset_locked(st: &mut State, seed: u64, policy: Policy, full: bool) {
    st.rng = Rng::new(seed ^ 0xA11C_A7E5);
    st.policy = policy;
    st.next_tag = 0;
    st.next_place = 0;
    st.next_align = 0;
    // Blocks that are still live belong to something that outlives an execution (a
    // `static` cache inside the library, a value leaked by an unwinding task): they stay
    // where they are. Only when far too many have piled up is everything forgotten.
    if !full && st.stats.live < 3000 {
        return;
    }
    st.stats.live = 0;
    for c in st.classes.iter_mut() {
        unsafe {
            for i in 0..c.n {
                *c.free.add(i) = (c.n - 1 - i) as u32;
                (*c.meta.add(i)).live = false;
            }
        }
        c.free_len = c.n;
    }
}

/// Start of an execution: the placement PRNG is re-seeded. Every block is filled on
/// allocation, so what an execution sees does not depend on the process history.
pub fn reset(seed: u64, policy: Policy) {
    let (_g, st) = lock();
    if st.inited {
        reset_locked(st, seed, policy, false);
    }
}

pub fn stats() -> Stats {
    let (_g, st) = lock();
    st.stats
}
pub fn clear_stats() {
    let (_g, st) = lock();
    let live = st.stats.live;
    st.stats = Stats::default();
    st.stats.live = live;
}

/// Label + placement + alignment of the *next* arena allocation (used by the harness for
/// the buffers it hands to the library). place: 1 = flush end, 2 = flush start.
pub fn next_alloc(tag: u8, place: u8, align: usize) {
    let (_g, st) = lock();
    st.next_tag = tag;
    st.next_place = place;
    st.next_align = align;
}

#[inline]
fn in_arena(p: usize) -> bool {
    let b = ARENA_BASE.load(Ordering::Relaxed);
    b != 0 && p >= b && p < b + ARENA_LEN.load(Ordering::Relaxed)
}

/// Is `p` inside the arena (i.e. was it placed by the simulator)?
pub fn is_arena_ptr(p: *const u8) -> bool {
    in_arena(p as usize)
}

fn find_slot(st: &State, p: usize) -> Option<(usize, usize)> {
    for (ci, c) in st.classes.iter().enumerate() {
        let end = c.base + (c.n * c.stride) + PAGE;
        if p >= c.base && p < end {
            let rel = p - c.base;
            if rel < PAGE {
                return Some((ci, 0));
            }
            let i = (rel - PAGE) / c.stride;
            return Some((ci, i.min(c.n - 1)));
        }
    }
    None
}

unsafe fn arena_alloc(size: usize, align: usize, zeroed: bool) -> *mut u8 {
    let z = zone::get();
    let (_g, st) = lock();
    if !st.inited || size == 0 || align > 64 {
        return std::ptr::null_mut();
    }
    let tag = st.next_tag;
    let place = st.next_place;
    let mut eff_align = align;
    if align == 1 {
        if st.next_align != 0 {
            eff_align = st.next_align;
        } else if z == zone::USER {
            eff_align = 16; // what every mainstream malloc gives a Vec<u8>
        }
    }
    st.next_tag = 0;
    st.next_place = 0;
    st.next_align = 0;
    let need = size + 32;
    let mut ci = usize::MAX;
    for (i, c) in st.classes.iter().enumerate() {
        if c.data_bytes >= need && c.free_len > 0 {
            ci = i;
            break;
        }
    }
    if ci == usize::MAX {
        st.stats.fallback_system += 1;
        return std::ptr::null_mut();
    }
    let r = st.rng.next_u64();
    let policy = st.policy;
    let c = &mut st.classes[ci];
    c.free_len -= 1;
    let slot = *c.free.add(c.free_len) as usize;
    let data = c.base + PAGE + slot * c.stride;
    let db = c.data_bytes;
    let mut off;
    let flush_start = match place {
        1 => false,
        2 => true,
        _ => (r & 0xff) < policy.p_flush_start as u64,
    };
    if flush_start {
        off = 0;
        st.stats.flush_start += 1;
    } else if align == 1 && z == zone::LIBRARY && policy.misalign_scratch && eff_align == 1 {
        // the library's own byte buffers: choose the residue mod 16
        let k = if policy.forced_k < 16 { policy.forced_k as usize } else { ((r >> 8) & 15) as usize };
        let exact = db - size;
        if ((r >> 12) & 3) == 0 && policy.forced_k >= 16 {
            off = exact; // exactly flush, residue decided by the size
        } else {
            let base16 = exact & !15;
            off = base16 + k;
            if off + size > db {
                off -= 16;
            }
        }
        st.stats.misaligned += 1;
        st.stats.misalign_hist[(data + off) & 15] += 1;
    } else {
        off = (db - size) & !(eff_align - 1);
        st.stats.flush_end += 1;
    }
    let m = &mut *c.meta.add(slot);
    m.live = true;
    m.off = off as u32;
    m.size = size as u32;
    m.zone = z;
    m.tag = tag;
    if z == zone::USER {
        st.stats.user_allocs += 1;
    } else {
        st.stats.lib_allocs += 1;
    }
    st.stats.live += 1;
    if st.stats.live > st.stats.max_live {
        st.stats.max_live = st.stats.live;
    }
    // deterministic content: the whole neighbourhood of the block is (re)filled
    let p = (data + off) as *mut u8;
    let (f0, f1) = if db <= 64 * 1024 {
        (0usize, db)
    } else {
        (off.saturating_sub(2 * PAGE), (off + size + 2 * PAGE).min(db))
    };
    std::ptr::write_bytes((data + f0) as *mut u8, FILL_ALLOC, f1 - f0);
    if zeroed {
        std::ptr::write_bytes(p, 0, size);
    }
    p
}

unsafe fn arena_free(p: *mut u8) {
    let (_g, st) = lock();
    let a = p as usize;
    if let Some((ci, slot)) = find_slot(st, a) {
        let c = &mut st.classes[ci];
        let data = c.base + PAGE + slot * c.stride;
        let m = &mut *c.meta.add(slot);
        if !m.live || data + m.off as usize != a {
            st.stats.stale_free += 1;
            return;
        }
        std::ptr::write_bytes(p, FILL_FREE, m.size as usize);
        m.live = false;
        *c.free.add(c.free_len) = slot as u32;
        c.free_len += 1;
        st.stats.live = st.stats.live.saturating_sub(1);
    } else {
        st.stats.stale_free += 1;
    }
}

fn arena_size_of(p: *mut u8) -> usize {
    let (_g, st) = lock();
    if let Some((ci, slot)) = find_slot(st, p as usize) {
        let c = &st.classes[ci];
        let m = unsafe { &*c.meta.add(slot) };
        if m.live {
            return m.size as usize;
        }
    }
    0
}

pub struct SimAlloc;

unsafe impl GlobalAlloc for SimAlloc {
    unsafe fn alloc(&self, layout: Layout) -> *mut u8 {
        if zone::get() != zone::OFF {
            let p = arena_alloc(layout.size(), layout.align(), false);
            if !p.is_null() {
                return p;
            }
        }
        System.alloc(layout)
    }
    unsafe fn alloc_zeroed(&self, layout: Layout) -> *mut u8 {
        if zone::get() != zone::OFF {
            let p = arena_alloc(layout.size(), layout.align(), true);
            if !p.is_null() {
                return p;
            }
        }
        System.alloc_zeroed(layout)
    }
    unsafe fn dealloc(&self, ptr: *mut u8, layout: Layout) {
        if in_arena(ptr as usize) {
            arena_free(ptr);
        } else {
            System.dealloc(ptr, layout)
        }
    }
    unsafe fn realloc(&self, ptr: *mut u8, layout: Layout, new_size: usize) -> *mut u8 {
        let from_arena = in_arena(ptr as usize);
        if !from_arena && zone::get() == zone::OFF {
            return System.realloc(ptr, layout, new_size);
        }
        // always move
        let new_layout = Layout::from_size_align_unchecked(new_size, layout.align());
        let np = self.alloc(new_layout);
        if np.is_null() {
            return np;
        }
        let old_size = if from_arena { arena_size_of(ptr).min(layout.size()) } else { layout.size() };
        std::ptr::copy_nonoverlapping(ptr, np, old_size.min(new_size));
        self.dealloc(ptr, layout);
        {
            let (_g, st) = lock();
            st.stats.realloc_moves += 1;
        }
        np
    }
}

// ---------------------------------------------------------------------------------------
// crash monitor

fn put(buf: &mut [u8], pos: &mut usize, s: &[u8]) {
    for &b in s {
        if *pos < buf.len() {
            buf[*pos] = b;
            *pos += 1;
        }
    }
}
fn put_num(buf: &mut [u8], pos: &mut usize, mut v: u64) {
    let mut tmp = [0u8; 20];
    let mut n = 0;
    if v == 0 {
        tmp[0] = b'0';
        n = 1;
    }
    while v > 0 {
        tmp[n] = b'0' + (v % 10) as u8;
        v /= 10;
        n += 1;
    }
    while n > 0 {
        n -= 1;
        put(buf, pos, &tmp[n..n + 1]);
    }
}

extern "C" fn on_signal(sig: libc::c_int, info: *mut libc::siginfo_t, _ctx: *mut libc::c_void) {
    let mut buf = [0u8; 800];
    let mut pos = 0usize;
    put(&mut buf, &mut pos, b"\nCRASH sig=");
    put_num(&mut buf, &mut pos, sig as u64);
    let addr = if sig == libc::SIGSEGV || sig == libc::SIGBUS {
        unsafe { (*info).si_addr() as usize }
    } else {
        0
    };
    let guard = in_arena(addr);
    put(&mut buf, &mut pos, b" guard=");
    put_num(&mut buf, &mut pos, guard as u64);
    put(&mut buf, &mut pos, b" run=");
    put_num(&mut buf, &mut pos, CTX_RUN.load(Ordering::Relaxed));
    put(&mut buf, &mut pos, b" seed=");
    put_num(&mut buf, &mut pos, CTX_SEED.load(Ordering::Relaxed));
    put(&mut buf, &mut pos, b" var=");
    put_num(&mut buf, &mut pos, CTX_VAR.load(Ordering::Relaxed));
    put(&mut buf, &mut pos, b" op=");
    put_num(&mut buf, &mut pos, CTX_OP.load(Ordering::Relaxed));
    if guard {
        // describe the nearest block (no locking: we are dying anyway)
        let st = unsafe { &*STATE.0.get() };
        if let Some((ci, slot)) = find_slot(st, addr) {
            let c = &st.classes[ci];
            // the faulting guard sits before slot `slot`'s data or after the last one;
            // look at both neighbours and report the closer live block
            let mut best: Option<(u64, bool, u8, u8, u32)> = None;
            for s in [slot.wrapping_sub(1), slot] {
                if s >= c.n {
                    continue;
                }
                let m = unsafe { &*c.meta.add(s) };
                if !m.live {
                    continue;
                }
                let start = c.base + PAGE + s * c.stride + m.off as usize;
                let end = start + m.size as usize;
                let (dist, after) = if addr >= end {
                    ((addr - end) as u64, true)
                } else if addr < start {
                    ((start - addr) as u64, false)
                } else {
                    (0, true)
                };
                if best.map_or(true, |b| dist < b.0) {
                    best = Some((dist, after, m.zone, m.tag, m.size));
                }
            }
            if let Some((dist, after, z, tag, size)) = best {
                put(&mut buf, &mut pos, if after { b" rel=after_end" } else { b" rel=before_start" });
                put(&mut buf, &mut pos, b" dist=");
                put_num(&mut buf, &mut pos, dist);
                put(&mut buf, &mut pos, b" blockzone=");
                put_num(&mut buf, &mut pos, z as u64);
                put(&mut buf, &mut pos, b" tag=");
                put_num(&mut buf, &mut pos, tag as u64);
                put(&mut buf, &mut pos, b" blocksize=");
                put_num(&mut buf, &mut pos, size as u64);
            }
        }
    }
    if sig == libc::SIGABRT {
        let n = unsafe { &*NOTE.0.get() };
        put(&mut buf, &mut pos, b" note=");
        let l = n.1.min(buf.len().saturating_sub(pos + 2));
        let mut tmp = [0u8; 400];
        tmp[..l].copy_from_slice(&n.0[..l]);
        put(&mut buf, &mut pos, &tmp[..l]);
    }
    put(&mut buf, &mut pos, b"\n");
    unsafe {
        libc::write(2, buf.as_ptr() as *const _, pos);
        libc::_exit(70);
    }
}

fn install_crash_handler() {
    unsafe {
        let stack_len = 1 << 16;
        let stack = mmap_rw(stack_len);
        let ss = libc::stack_t { ss_sp: stack as *mut _, ss_flags: 0, ss_size: stack_len };
        libc::sigaltstack(&ss, std::ptr::null_mut());
        let mut sa: libc::sigaction = std::mem::zeroed();
        sa.sa_sigaction = on_signal as usize;
        sa.sa_flags = libc::SA_SIGINFO | libc::SA_ONSTACK | libc::SA_NODEFER;
        libc::sigemptyset(&mut sa.sa_mask);
        for sig in [libc::SIGSEGV, libc::SIGBUS, libc::SIGILL, libc::SIGFPE, libc::SIGABRT] {
            libc::sigaction(sig, &sa, std::ptr::null_mut());
        }
    }
}
