//! Allocation zones. The global allocator serves from the guard-page arena only while a
//! zone is on; harness bookkeeping and shuttle internals run with the zone off.

use std::sync::atomic::{AtomicU8, Ordering};

pub const OFF: u8 = 0;
/// The harness is building user images / buffers.
pub const USER: u8 = 1;
/// A library call is running (scratch buffers, coefficient vectors, split vectors ...).
pub const LIBRARY: u8 = 2;

static ZONE: AtomicU8 = AtomicU8::new(OFF);

#[inline]
pub fn get() -> u8 {
    ZONE.load(Ordering::Relaxed)
}
#[inline]
pub fn set(z: u8) {
    ZONE.store(z, Ordering::Relaxed)
}

pub struct Guard(u8);
impl Drop for Guard {
    fn drop(&mut self) {
        set(self.0)
    }
}
/// Switch zone until the guard drops (also on unwind).
#[must_use]
pub fn enter(z: u8) -> Guard {
    let old = get();
    set(z);
    Guard(old)
}
#[inline]
pub fn off<R>(f: impl FnOnce() -> R) -> R {
    let _g = enter(OFF);
    f()
}
