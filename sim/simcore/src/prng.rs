//! xoshiro256** seeded through SplitMix64. No other randomness exists in the simulator.

#[derive(Clone, Debug)]
pub struct Rng {
    s: [u64; 4],
}

pub fn splitmix64(state: &mut u64) -> u64 {
    *state = state.wrapping_add(0x9E37_79B9_7F4A_7C15);
    let mut z = *state;
    z = (z ^ (z >> 30)).wrapping_mul(0xBF58_476D_1CE4_E5B9);
    z = (z ^ (z >> 27)).wrapping_mul(0x94D0_49BB_1331_11EB);
    z ^ (z >> 31)
}

/// Run seed number `index` of the batch `base`.
pub fn derive(base: u64, index: u64) -> u64 {
    let mut s = base ^ index.wrapping_mul(0xD6E8_FEB8_6659_FD93);
    let a = splitmix64(&mut s);
    let b = splitmix64(&mut s);
    a ^ b.rotate_left(17)
}

impl Rng {
    pub const fn zero() -> Self {
        Rng { s: [1, 2, 3, 4] }
    }
    pub fn new(seed: u64) -> Self {
        let mut sm = seed;
        let s = [
            splitmix64(&mut sm),
            splitmix64(&mut sm),
            splitmix64(&mut sm),
            splitmix64(&mut sm),
        ];
        Rng { s }
    }
    #[inline]
    pub fn next_u64(&mut self) -> u64 {
        let r = self.s[1].wrapping_mul(5).rotate_left(7).wrapping_mul(9);
        let t = self.s[1] << 17;
        self.s[2] ^= self.s[0];
        self.s[3] ^= self.s[1];
        self.s[1] ^= self.s[2];
        self.s[0] ^= self.s[3];
        self.s[2] ^= t;
        self.s[3] = self.s[3].rotate_left(45);
        r
    }
    /// Uniform in `0..n` (n > 0).
    #[inline]
    pub fn below(&mut self, n: u64) -> u64 {
        debug_assert!(n > 0);
        ((self.next_u64() as u128 * n as u128) >> 64) as u64
    }
    /// Uniform in `lo..=hi`.
    #[inline]
    pub fn range(&mut self, lo: u64, hi: u64) -> u64 {
        lo + self.below(hi - lo + 1)
    }
    #[inline]
    pub fn chance(&mut self, num: u64, den: u64) -> bool {
        self.below(den) < num
    }
    #[inline]
    pub fn f64(&mut self) -> f64 {
        (self.next_u64() >> 11) as f64 / (1u64 << 53) as f64
    }
    pub fn pick<'a, T>(&mut self, xs: &'a [T]) -> &'a T {
        &xs[self.below(xs.len() as u64) as usize]
    }
    pub fn fork(&mut self) -> Rng {
        Rng::new(self.next_u64())
    }
}
