#!/bin/bash
# confirm_mutant.sh <name> <dir with patch.diff demo.rs meta.json> [cargo test extra args for the demo]
# Fresh worktree of /repo HEAD: (1) demo passes without the patch, (2) patch applies,
# builds with and without rayon, (3) the 65 baseline tests still pass, (4) demo fails.
set -u
name=$1; src=$2; shift 2; extra="$*"
wt=/tmp/mutconfirm/$name
rm -rf $wt; mkdir -p /tmp/mutconfirm
git -C /repo worktree prune
git -C /repo worktree add --detach $wt HEAD >/dev/null 2>&1 || { echo "worktree failed"; exit 2; }
export CARGO_TARGET_DIR=$wt/target CARGO_NET_OFFLINE=true
cd $wt
cp $src/demo.rs tests/demo_mutant.rs
echo "== demo WITHOUT patch"
cargo test --offline --test demo_mutant $extra 2>&1 | grep -E "^test result|^test .* (ok|FAILED)|error" | head -20
echo "== apply"
git apply $src/patch.diff && echo applied || { echo "PATCH DOES NOT APPLY"; exit 1; }
echo "== build with rayon"
cargo build --offline --features rayon 2>&1 | grep -E "^error|Finished" | head
echo "== demo WITH patch"
cargo test --offline --test demo_mutant $extra 2>&1 | grep -E "^test result|^test .* (ok|FAILED)|error" | head -20
echo "== baseline suite WITH patch"
rm tests/demo_mutant.rs
cargo test --workspace --no-fail-fast --offline 2>&1 | grep -E "^test .* \.\.\. (ok|FAILED)" | sort > $wt/baseline_with_patch.txt
python3 - <<PY
import json
stable=set(json.load(open('/root/.vp/BASELINE.json'))['stable_pass'])
ok=set()
for l in open('$wt/baseline_with_patch.txt'):
    p=l.split()
    if p[-1]=='ok': ok.add(p[1])
# names in baseline are prefixed with crate::binary; compare by suffix
missing=[s for s in stable if not any(s.endswith('::'+o) or s.split('::',1)[-1].endswith(o) for o in ok)]
print("baseline: %d ok lines; stable tests not seen passing: %d %s" % (len(ok), len(missing), missing[:5]))
PY
cd /; git -C /repo worktree remove --force $wt
echo "== done $name"
