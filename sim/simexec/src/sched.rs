//! The scheduler: an implementation of shuttle's `Scheduler` trait that the simulator
//! owns. Modes: seeded uniform random, PCT (priority based with d-1 change points),
//! replay of a recorded choice list (strict or lenient), trivial (lowest task id).
//! Every mode records its task choices and its data draws.

use shuttle::scheduler::{Schedule, Scheduler, Task, TaskId};
use simcore::events::{self, TaskCtx};
use simcore::{zone, Rng};
use std::sync::atomic::{AtomicU64, Ordering};

/// Number of times the running task changed (read by the job-snapshot oracle: a job that
/// saw a switch between its begin and its end was not atomic).
pub static SWITCHES: AtomicU64 = AtomicU64::new(0);
use std::sync::{Arc, Mutex};

#[derive(Clone, Debug)]
pub enum Mode {
    Random,
    Pct { depth: u32 },
    Replay { choices: Vec<u32>, data: Vec<u64>, strict: bool },
    Trivial,
}

#[derive(Debug, Default)]
pub struct Shared {
    /// one entry per pending execution: (mode, seed)
    pub next: Option<(Mode, u64)>,
    pub choices: Vec<u32>,
    pub data: Vec<u64>,
    pub steps: u64,
    pub diverged: Option<String>,
    pub max_runnable: u32,
    pub context_switches: u64,
}

pub struct SimScheduler {
    shared: Arc<Mutex<Shared>>,
    mode: Mode,
    rng: Rng,
    // PCT state
    prio: Vec<u64>,
    change_points: Vec<u64>,
    // replay state
    pos: usize,
    dpos: usize,
    last: Option<usize>,
    /// per-task context (allocation zone, current job, client), swapped at EVERY
    /// scheduling point - also those the harness does not make itself (locks / atomics
    /// inside the library, redirected to shuttle by the source shim)
    ctx: Vec<Option<TaskCtx>>,
    /// per-task floating-point control word (MXCSR): every simulated thread has its own,
    /// like a real thread; a new task starts with the default (0x1F80)
    mxcsr: Vec<Option<u32>>,
}

impl SimScheduler {
    pub fn new(shared: Arc<Mutex<Shared>>) -> Self {
        SimScheduler {
            shared,
            mode: Mode::Trivial,
            rng: Rng::new(0),
            prio: vec![],
            change_points: vec![],
            pos: 0,
            dpos: 0,
            last: None,
            ctx: vec![],
            mxcsr: vec![],
        }
    }
}

const PCT_EST_STEPS: u64 = 400;

const MXCSR_DEFAULT: u32 = 0x1F80;
#[cfg(target_arch = "x86_64")]
#[allow(deprecated)]
fn get_mxcsr() -> u32 {
    unsafe { std::arch::x86_64::_mm_getcsr() }
}
#[cfg(target_arch = "x86_64")]
#[allow(deprecated)]
fn set_mxcsr(v: u32) {
    // keep the control bits, clear the sticky exception flags
    unsafe { std::arch::x86_64::_mm_setcsr(v & !0x3f) }
}
#[cfg(not(target_arch = "x86_64"))]
fn get_mxcsr() -> u32 {
    MXCSR_DEFAULT
}
#[cfg(not(target_arch = "x86_64"))]
fn set_mxcsr(_v: u32) {}

impl Scheduler for SimScheduler {
    fn new_execution(&mut self) -> Option<Schedule> {
        let mut sh = self.shared.lock().unwrap();
        let (mode, seed) = sh.next.take()?;
        sh.choices.clear();
        sh.data.clear();
        sh.steps = 0;
        sh.diverged = None;
        sh.max_runnable = 0;
        sh.context_switches = 0;
        self.rng = Rng::new(seed);
        self.prio.clear();
        self.change_points.clear();
        if let Mode::Pct { depth } = mode {
            for _ in 1..depth.max(1) {
                self.change_points.push(self.rng.below(PCT_EST_STEPS));
            }
        }
        self.mode = mode;
        self.pos = 0;
        self.dpos = 0;
        self.last = None;
        self.ctx.clear();
        self.mxcsr.clear();
        set_mxcsr(MXCSR_DEFAULT);
        Some(Schedule::new(seed))
    }

    fn next_task(&mut self, runnable: &[&Task], current: Option<TaskId>, _is_yielding: bool) -> Option<TaskId> {
        if runnable.is_empty() {
            return None;
        }
        let mut sh = self.shared.lock().unwrap();
        sh.steps += 1;
        sh.max_runnable = sh.max_runnable.max(runnable.len() as u32);
        let pick: usize = match &self.mode {
            Mode::Random => self.rng.below(runnable.len() as u64) as usize,
            Mode::Trivial => {
                let mut best = 0;
                for (i, t) in runnable.iter().enumerate() {
                    if usize::from(t.id()) < usize::from(runnable[best].id()) {
                        best = i;
                    }
                }
                best
            }
            Mode::Pct { .. } => {
                // priorities: assigned on first sight, high = runs first
                let step = sh.steps;
                for t in runnable.iter() {
                    let id = usize::from(t.id());
                    while self.prio.len() <= id {
                        self.prio.push(0);
                    }
                    if self.prio[id] == 0 {
                        self.prio[id] = 1000 + self.rng.below(1_000_000);
                    }
                }
                let mut best = 0;
                for (i, t) in runnable.iter().enumerate() {
                    if self.prio[usize::from(t.id())] > self.prio[usize::from(runnable[best].id())] {
                        best = i;
                    }
                }
                if let Some(k) = self.change_points.iter().position(|&c| c == step) {
                    // demote the task that would run now
                    let id = usize::from(runnable[best].id());
                    self.prio[id] = 1 + k as u64;
                    let mut b2 = 0;
                    for (i, t) in runnable.iter().enumerate() {
                        if self.prio[usize::from(t.id())] > self.prio[usize::from(runnable[b2].id())] {
                            b2 = i;
                        }
                    }
                    best = b2;
                }
                best
            }
            Mode::Replay { choices, strict, .. } => {
                let want = choices.get(self.pos).copied();
                self.pos += 1;
                let found = want.and_then(|w| runnable.iter().position(|t| usize::from(t.id()) == w as usize));
                match found {
                    Some(i) => i,
                    None => {
                        if *strict && sh.diverged.is_none() {
                            sh.diverged = Some(format!(
                                "step {}: recorded task {:?} not runnable (runnable: {:?})",
                                self.pos - 1,
                                want,
                                runnable.iter().map(|t| usize::from(t.id())).collect::<Vec<_>>()
                            ));
                        }
                        // lenient: stay on the task that ran last if possible, else lowest id
                        let mut best = 0;
                        for (i, t) in runnable.iter().enumerate() {
                            if Some(usize::from(t.id())) == self.last {
                                best = i;
                                break;
                            }
                            if usize::from(t.id()) < usize::from(runnable[best].id()) {
                                best = i;
                            }
                        }
                        best
                    }
                }
            }
        };
        let id = runnable[pick].id();
        let idn = usize::from(id);
        // swap the per-task context
        if let Some(cur) = current {
            let c = usize::from(cur);
            if self.ctx.len() <= c {
                self.ctx.resize(c + 1, None);
            }
            self.ctx[c] = Some(events::save_ctx());
        }
        let next_ctx = self.ctx.get(idn).copied().flatten().unwrap_or(TaskCtx { zone: zone::OFF, job: events::NO_JOB, client: events::current_client() });
        events::restore_ctx(next_ctx);
        if let Some(cur) = current {
            let c = usize::from(cur);
            if self.mxcsr.len() <= c {
                self.mxcsr.resize(c + 1, None);
            }
            self.mxcsr[c] = Some(get_mxcsr());
        }
        set_mxcsr(self.mxcsr.get(idn).copied().flatten().unwrap_or(MXCSR_DEFAULT));
        if self.last != Some(idn) {
            sh.context_switches += 1;
            SWITCHES.fetch_add(1, Ordering::Relaxed);
        }
        self.last = Some(idn);
        sh.choices.push(idn as u32);
        Some(id)
    }

    fn next_u64(&mut self) -> u64 {
        let mut sh = self.shared.lock().unwrap();
        let v = match &self.mode {
            Mode::Replay { data, strict, .. } => {
                let v = data.get(self.dpos).copied();
                self.dpos += 1;
                match v {
                    Some(v) => v,
                    None => {
                        if *strict && sh.diverged.is_none() {
                            sh.diverged = Some(format!("data draw {} beyond the recorded stream", self.dpos - 1));
                        }
                        0
                    }
                }
            }
            Mode::Trivial => 0,
            _ => self.rng.next_u64(),
        };
        sh.data.push(v);
        v
    }
}
